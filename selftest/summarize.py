#!/usr/bin/env python3
"""Print the markdown tables of DESIGN.md section 7 from seeded/*/meta.json and selftest/results/*.json."""
import json
import os
import re

VERIF = os.path.dirname(os.path.dirname(os.path.abspath(__file__)))


def short(k):
    k = re.sub(r"jrsonnet_[a-z_]+::", "", k)
    return k if len(k) < 70 else k[:67] + "..."


def main():
    rows = {}
    for name in sorted(os.listdir(os.path.join(VERIF, "seeded"))):
        mp = os.path.join(VERIF, "seeded", name, "meta.json")
        if not os.path.exists(mp):
            continue
        m = json.load(open(mp))
        np_ = os.path.join(VERIF, "seeded", name, "notes.md")
        if os.path.exists(np_):
            first = open(np_).readline().strip().lstrip("# ")
            m["title"] = re.sub(r"^C\d+-[ab]\d\s*[-:—–]*\s*", "", first)
        rows[name] = m
    print("| property | batch a (3 each) | batch b (2 each) | batch c (2 each) |")
    print("|---|---|---|---|")
    tot = {"a": [0, 0], "b": [0, 0], "c": [0, 0]}
    for i in range(1, 21):
        p = "C%02d" % i
        cells = {"a": [], "b": [], "c": []}
        for name, m in rows.items():
            if not name.startswith(p + "-"):
                continue
            batch = name.split("-")[1][0]
            det = m.get("detected_by")
            tot[batch][1] += 1
            if det:
                tot[batch][0] += 1
                cells[batch].append("%s ✓ %s" % (name.split("-")[1], short(det[0])))
            else:
                cells[batch].append("%s ✗ %s" % (name.split("-")[1], (m.get("summary") or m.get("title") or "")[:60]))
        print("| %s | %s | %s | %s |" % (p, "<br>".join(cells["a"]), "<br>".join(cells["b"]), "<br>".join(cells["c"])))
    print()
    print("batch a: %d of %d reported; batch b: %d of %d reported; batch c: %d of %d reported" % (tot["a"][0], tot["a"][1], tot["b"][0], tot["b"][1], tot["c"][0], tot["c"][1]))
    for kind in ("reverts", "refactors"):
        rp = os.path.join(VERIF, "selftest", "results", kind + ".json")
        if os.path.exists(rp):
            r = json.load(open(rp))
            hit = sum(1 for v in r.values() if any(c["reported"] for c in v.get("checks", {}).values()))
            print("%s: %d patches, %d with at least one report" % (kind, len(r), hit))
            if kind == "reverts":
                for k, v in sorted(r.items()):
                    det = sorted({x for c in v.get("checks", {}).values() for x in c["reported"]})
                    print("  %s: %s" % (k, "; ".join(short(d) for d in det[:2]) if det else "NOT REPORTED"))


if __name__ == "__main__":
    main()
