#!/usr/bin/env python3
"""Self-test of the checks against the seeded changes under /verif/seeded/<id>/ and the reverted repairs under selftest/reverts/.

usage: run_seeds.py [--only C14-a1,...] [--kind seeded|reverts|refactors]

For every patch: apply it to /repo's working tree (git apply, 3-way fallback), run the quick check of the property it breaks (for
refactors: every check), record which obligations were reported, and ALWAYS restore the tree (git checkout -- .).  Results go to
selftest/results/<kind>.json; seeded/*/meta.json gets its `detected_by` field filled.  Nothing here is registered in MANIFEST.json:
it tests the checkers, it does not decide a property."""
import json
import os
import re
import subprocess
import sys

VERIF = os.path.dirname(os.path.dirname(os.path.abspath(__file__)))
REPO = os.environ.get("JRS_REPO", "/repo")
ALL = ["C%02d" % i for i in range(1, 21)]


def sh(cmd, cwd=None):
    return subprocess.run(cmd, shell=True, cwd=cwd, stdout=subprocess.PIPE, stderr=subprocess.STDOUT, text=True)


def dirty():
    return sh("git status --porcelain --untracked-files=no", REPO).stdout.strip() != ""


def apply(patch):
    if sh("git apply --check '%s'" % patch, REPO).returncode == 0:
        return sh("git apply '%s'" % patch, REPO).returncode == 0
    r = sh("git apply --3way '%s'" % patch, REPO)
    sh("git reset -q", REPO)
    return r.returncode == 0 and "with conflicts" not in r.stdout


def restore():
    sh("git checkout -q -- .", REPO)
    sh("git clean -fdq -e target", REPO)


def check(prop):
    r = sh("python3 checker/verif.py check %s --tier quick" % prop, VERIF)
    keys = re.findall(r"^  rule=\S+ key=(.*)$", r.stdout, re.M)
    broken = "CHECKER-BROKEN" in r.stdout or r.returncode not in (0, 1)
    return r.returncode, keys, broken, r.stdout[-600:] if broken else ""


def main():
    args = sys.argv[1:]
    only = None
    kind = "seeded"
    while args:
        a = args.pop(0)
        if a == "--only":
            only = set(args.pop(0).split(","))
        elif a == "--kind":
            kind = args.pop(0)
    if dirty():
        print("repo has uncommitted changes to tracked files; refusing")
        return 2
    base = {"seeded": os.path.join(VERIF, "seeded"), "reverts": os.path.join(VERIF, "selftest", "reverts"),
            "refactors": os.path.join(VERIF, "selftest", "refactors")}[kind]
    results = {}
    outp = os.path.join(VERIF, "selftest", "results", kind + ".json")
    if os.path.exists(outp):
        results = json.load(open(outp))
    for name in sorted(os.listdir(base)):
        d = os.path.join(base, name)
        patch = os.path.join(d, "patch.diff")
        if not os.path.isfile(patch) or (only and name not in only):
            continue
        meta = json.load(open(os.path.join(d, "meta.json"))) if os.path.exists(os.path.join(d, "meta.json")) else {}
        # refactorings must be silent everywhere; a reverted repair counts as reported if any check reports it
        props = ALL if kind in ("refactors", "reverts") else meta.get("check_with") or [meta.get("property") or name[:3]]
        try:
            if not apply(patch):
                results[name] = {"applied": False}
                print(name, "PATCH DOES NOT APPLY")
                continue
            res = {"applied": True, "checks": {}}
            if props == ALL:
                r = sh("python3 checker/verif.py check ALL", VERIF)
                cur = None
                per = {}
                for line in r.stdout.splitlines():
                    m = re.match(r"^VIOLATION property=(C\d+) ", line)
                    if m:
                        cur = m.group(1)
                    m = re.match(r"^  rule=\S+ key=(.*)$", line)
                    if m and cur:
                        per.setdefault(cur, []).append(m.group(1))
                for p in props:
                    res["checks"][p] = {"exit": 1 if p in per else 0, "reported": per.get(p, [])}
                if "CHECKER-BROKEN" in r.stdout or r.returncode not in (0, 1):
                    res["broken"] = r.stdout[-800:]
            else:
                for p in props:
                    rc, keys, broken, tail = check(p)
                    res["checks"][p] = {"exit": rc, "reported": keys}
                    if broken:
                        res["checks"][p]["broken"] = tail
            results[name] = res
        finally:
            restore()
        det = sorted({k for c in res["checks"].values() for k in c["reported"]})
        print(name, "->", "DETECTED " + "; ".join(det) if det else ("silent" if kind == "refactors" else "MISSED"), flush=True)
        if kind == "seeded" and os.path.exists(os.path.join(d, "meta.json")):
            meta["detected_by"] = det if det else []
            json.dump(meta, open(os.path.join(d, "meta.json"), "w"), indent=1)
        os.makedirs(os.path.dirname(outp), exist_ok=True)
        json.dump(results, open(outp, "w"), indent=1, sort_keys=True)
    return 0


if __name__ == "__main__":
    sys.exit(main())
