#!/bin/bash
# usage: apply_and_check.sh <patch.diff> <Cxx> [<Cxx>...]   -- applies to /repo, runs checks, always reverts
set -u
P=$1; shift
cd /repo || exit 2
if ! git diff --quiet; then echo "repo dirty"; exit 2; fi
if ! git apply --check "$P" 2>/dev/null; then
  if ! git apply --3way "$P" 2>/dev/null; then echo "PATCH DOES NOT APPLY: $P"; git checkout -q -- . ; exit 3; fi
  git reset -q
else
  git apply "$P"
fi
rc=0
for c in "$@"; do
  (cd /verif && python3 checker/verif.py check $c 2>/dev/null | grep -E "^(VIOLATION|  rule=|  [A-Za-z]|C[0-9]+:|KNOWN|CHECKER)" | cut -c1-300)
done
git checkout -q -- .
git status --short | grep -v '^??' | head -3
