#!/usr/bin/env python3
"""import_seed.py <seed-name>... : copy a confirmed seeded change from /tmp/seed/out into /verif/seeded/"""
import json, os, shutil, sys, re
SUM = {}
for l in open('/tmp/seed/confirm/SUMMARY'):
    kv = dict(x.split('=', 1) for x in l.split())
    SUM[kv['seed']] = kv
for name in sys.argv[1:]:
    src = '/tmp/seed/out/' + name
    dst = '/verif/seeded/' + name
    kv = SUM.get(name)
    if not kv or kv.get('build') != 'ok' or kv.get('demo_pristine_exit') != '0' or kv.get('demo_patched_exit') == '0' or kv.get('tests_fail_other_than_cpp') != '0':
        print('NOT CONFIRMED', name, kv); continue
    os.makedirs(dst, exist_ok=True)
    for f in os.listdir(src):
        p = os.path.join(src, f)
        if os.path.isdir(p):
            if f in ('cases', 'harness') and sum(os.path.getsize(os.path.join(r, x)) for r, _, fs in os.walk(p) for x in fs) < 300000:
                shutil.copytree(p, os.path.join(dst, f), dirs_exist_ok=True)
            continue
        if os.path.getsize(p) > 200000 or f.endswith(('.log', '.out', '.summary')) or 'baseline' in f:
            continue
        shutil.copy(p, dst)
    notes = open(os.path.join(src, 'notes.md')).read() if os.path.exists(os.path.join(src, 'notes.md')) else ''
    meta = {
        'property': name.split('-')[0],
        'origin': 'independent sub-agent given only the property text and a scratch worktree at the pinned commit',
        'needs_to_manifest': 'see notes.md (written by the seeding agent)',
        'confirmed_by_me': {
            'worktree': 'scratch git worktree of /repo at the pinned commit d3a3dd3 under /tmp/seed (removed afterwards)',
            'commands': ['git apply patch.diff', 'cargo build --workspace --offline', 'bash demo.sh <worktree>   (patched: must fail)',
                         'cargo test --workspace --no-fail-fast --offline   (only cpp_test_suite may fail)', 'git checkout -- .', 'bash demo.sh <worktree>   (pristine: must pass)'],
            'result': kv,
        },
        'detected_by': None,
    }
    old = os.path.join(dst, 'meta.json')
    if os.path.exists(old):
        try: meta['detected_by'] = json.load(open(old)).get('detected_by')
        except Exception: pass
    json.dump(meta, open(old, 'w'), indent=1)
    print('imported', name)
