//! HIR tree dump of every local fn body (post-expansion, with paths resolved through typeck).
use crate::json::J;
use crate::Cx;
use rustc_ast::LitKind;
use rustc_hir as hir;
use rustc_hir::def::{DefKind, Res};
use rustc_middle::ty::TypeckResults;

pub fn dump<'tcx>(cx: &Cx<'tcx>) -> J {
    let tcx = cx.tcx;
    let mut out = Vec::new();
    for ldid in tcx.hir_body_owners() {
        let kind = tcx.def_kind(ldid);
        if !matches!(kind, DefKind::Fn | DefKind::AssocFn | DefKind::Const { .. } | DefKind::AssocConst { .. } | DefKind::Static { .. }) {
            continue;
        }
        let Some(body) = tcx.hir_maybe_body_owned_by(ldid) else { continue };
        let tr = tcx.typeck(ldid);
        let d = D { cx, tr };
        let params: Vec<J> = body.params.iter().map(|p| d.pat(p.pat)).collect();
        out.push(J::Obj(vec![
            ("path", J::s(cx.path(ldid.to_def_id()))),
            ("kind", J::s(match kind { DefKind::Fn | DefKind::AssocFn => "fn", DefKind::Static { .. } => "static", _ => "const" })),
            ("params", J::Arr(params)),
            ("body", d.expr(body.value)),
        ]));
    }
    J::Arr(out)
}

struct D<'a, 'tcx> {
    cx: &'a Cx<'tcx>,
    tr: &'tcx TypeckResults<'tcx>,
}

fn t(s: &str) -> J {
    J::s(s)
}

impl<'a, 'tcx> D<'a, 'tcx> {
    fn line(&self, sp: rustc_span::Span) -> J {
        let sm = self.cx.tcx.sess.source_map();
        J::Int(sm.lookup_char_pos(sp.source_callsite().lo()).line as i128)
    }
    fn res(&self, r: Res) -> J {
        match r {
            Res::Def(k, did) => J::Arr(vec![t("def"), J::s(format!("{k:?}")), J::s(self.cx.path(did))]),
            Res::Local(id) => J::Arr(vec![t("local"), J::s(self.cx.tcx.hir_name(id).to_string())]),
            Res::SelfCtor(did) => J::Arr(vec![t("selfctor"), J::s(self.cx.path(did))]),
            Res::SelfTyAlias { alias_to, .. } => J::Arr(vec![t("selfty"), J::s(self.cx.path(alias_to))]),
            Res::PrimTy(p) => J::Arr(vec![t("prim"), J::s(p.name_str())]),
            _ => J::Arr(vec![t("res?"), J::s(format!("{r:?}"))]),
        }
    }
    fn qpath(&self, q: &hir::QPath<'tcx>, id: hir::HirId) -> J {
        self.res(self.tr.qpath_res(q, id))
    }
    fn lit(&self, l: &hir::Lit, neg: bool) -> J {
        match &l.node {
            LitKind::Str(s, _) => J::Arr(vec![t("lit"), t("str"), J::s(s.to_string())]),
            LitKind::ByteStr(b, _) | LitKind::CStr(b, _) => J::Arr(vec![
                t("lit"),
                t("bytes"),
                J::Arr(b.as_byte_str().iter().map(|x| J::Int(*x as i128)).collect()),
            ]),
            LitKind::Byte(b) => J::Arr(vec![t("lit"), t("byte"), J::Int(*b as i128)]),
            LitKind::Char(c) => J::Arr(vec![t("lit"), t("char"), J::s(c.to_string())]),
            LitKind::Int(v, _) => {
                let v = v.get() as i128;
                J::Arr(vec![t("lit"), t("int"), J::Int(if neg { -v } else { v })])
            }
            LitKind::Float(s, _) => J::Arr(vec![
                t("lit"),
                t("float"),
                J::s(format!("{}{}", if neg { "-" } else { "" }, s)),
            ]),
            LitKind::Bool(b) => J::Arr(vec![t("lit"), t("bool"), J::Bool(*b)]),
            LitKind::Err(_) => J::Arr(vec![t("lit"), t("err")]),
        }
    }
    fn patexpr(&self, e: &hir::PatExpr<'tcx>) -> J {
        match &e.kind {
            hir::PatExprKind::Lit { lit, negated } => self.lit(lit, *negated),
            hir::PatExprKind::Path(q) => J::Arr(vec![t("path"), self.qpath(q, e.hir_id)]),
        }
    }
    fn pat(&self, p: &hir::Pat<'tcx>) -> J {
        use hir::PatKind::*;
        match &p.kind {
            Missing | Wild => J::Arr(vec![t("wild")]),
            Never => J::Arr(vec![t("never")]),
            Binding(_, _, ident, sub) => {
                let ty = self.tr.node_type_opt(p.hir_id).map(|t| self.cx.ty(t));
                J::Arr(vec![
                    t("bind"),
                    J::s(ident.name.to_string()),
                    ty.into(),
                    match sub {
                        Some(s) => self.pat(s),
                        None => J::Null,
                    },
                ])
            }
            Struct(q, fields, rest) => J::Arr(vec![
                t("struct"),
                self.qpath(q, p.hir_id),
                J::Arr(
                    fields
                        .iter()
                        .map(|f| J::Arr(vec![J::s(f.ident.name.to_string()), self.pat(f.pat)]))
                        .collect(),
                ),
                J::Bool(rest.is_some()),
            ]),
            TupleStruct(q, pats, ddp) => J::Arr(vec![
                t("ts"),
                self.qpath(q, p.hir_id),
                J::Arr(pats.iter().map(|x| self.pat(x)).collect()),
                J::Bool(ddp.as_opt_usize().is_some()),
            ]),
            Or(ps) => J::Arr(vec![t("or"), J::Arr(ps.iter().map(|x| self.pat(x)).collect())]),
            Tuple(ps, ddp) => J::Arr(vec![
                t("tup"),
                J::Arr(ps.iter().map(|x| self.pat(x)).collect()),
                J::Bool(ddp.as_opt_usize().is_some()),
            ]),
            Box(x) | Deref(x) | Ref(x, _, _) => J::Arr(vec![t("ref"), self.pat(x)]),
            Expr(e) => self.patexpr(e),
            Guard(x, g) => J::Arr(vec![t("guard"), self.pat(x), self.expr(g)]),
            Range(a, b, end) => J::Arr(vec![
                t("range"),
                a.map(|a| self.patexpr(a)).into(),
                b.map(|b| self.patexpr(b)).into(),
                J::Bool(matches!(end, hir::RangeEnd::Included)),
            ]),
            Slice(a, m, b) => J::Arr(vec![
                t("slice"),
                J::Arr(a.iter().map(|x| self.pat(x)).collect()),
                m.map(|m| self.pat(m)).into(),
                J::Arr(b.iter().map(|x| self.pat(x)).collect()),
            ]),
            Err(_) => J::Arr(vec![t("err")]),
        }
    }
    fn block(&self, b: &hir::Block<'tcx>) -> J {
        let mut stmts = Vec::new();
        for s in b.stmts {
            match &s.kind {
                hir::StmtKind::Let(l) => stmts.push(J::Arr(vec![
                    t("let"),
                    self.pat(l.pat),
                    l.init.map(|e| self.expr(e)).into(),
                    l.els.map(|b| self.block(b)).into(),
                ])),
                hir::StmtKind::Item(_) => {}
                hir::StmtKind::Expr(e) | hir::StmtKind::Semi(e) => stmts.push(self.expr(e)),
            }
        }
        J::Arr(vec![t("block"), J::Arr(stmts), b.expr.map(|e| self.expr(e)).into()])
    }
    fn expr(&self, e: &hir::Expr<'tcx>) -> J {
        use hir::ExprKind::*;
        let tcx = self.cx.tcx;
        match &e.kind {
            ConstBlock(_) => J::Arr(vec![t("constblock")]),
            Array(es) => J::Arr(vec![t("array"), J::Arr(es.iter().map(|x| self.expr(x)).collect())]),
            Call(f, args) => J::Arr(vec![
                t("call"),
                self.expr(f),
                J::Arr(args.iter().map(|x| self.expr(x)).collect()),
                self.line(e.span),
            ]),
            MethodCall(seg, recv, args, _) => {
                let did = self.tr.type_dependent_def_id(e.hir_id);
                let rty = self.tr.expr_ty_adjusted_opt(recv).map(|t| self.cx.ty(t));
                J::Arr(vec![
                    t("mcall"),
                    match did {
                        Some(d) => J::s(self.cx.path(d)),
                        None => J::s(seg.ident.name.to_string()),
                    },
                    self.expr(recv),
                    J::Arr(args.iter().map(|x| self.expr(x)).collect()),
                    self.line(e.span),
                    rty.into(),
                ])
            }
            Use(x, _) => self.expr(x),
            Tup(es) => J::Arr(vec![t("tup"), J::Arr(es.iter().map(|x| self.expr(x)).collect())]),
            Binary(op, a, b) => {
                J::Arr(vec![t("binary"), J::s(op.node.as_str()), self.expr(a), self.expr(b)])
            }
            Unary(op, a) => J::Arr(vec![t("unary"), J::s(op.as_str()), self.expr(a)]),
            Lit(l) => self.lit(l, false),
            Cast(x, _) => {
                let ty = self.tr.expr_ty_opt(e).map(|t| self.cx.ty(t));
                J::Arr(vec![t("cast"), self.expr(x), ty.into()])
            }
            Type(x, _) => self.expr(x),
            DropTemps(x) => self.expr(x),
            Let(l) => J::Arr(vec![t("letexpr"), self.pat(l.pat), self.expr(l.init)]),
            If(c, a, b) => J::Arr(vec![
                t("if"),
                self.expr(c),
                self.expr(a),
                b.map(|b| self.expr(b)).into(),
            ]),
            Loop(b, _, src, _) => J::Arr(vec![t("loop"), J::s(format!("{src:?}")), self.block(b)]),
            Match(s, arms, src) => J::Arr(vec![
                t("match"),
                self.expr(s),
                J::Arr(
                    arms.iter()
                        .map(|a| {
                            J::Arr(vec![
                                self.pat(a.pat),
                                a.guard.map(|g| self.expr(g)).into(),
                                self.expr(a.body),
                            ])
                        })
                        .collect(),
                ),
                J::s(format!("{src:?}")),
                self.line(e.span),
                self.tr.expr_ty_adjusted_opt(s).map(|t| self.cx.ty(t)).into(),
            ]),
            Closure(c) => {
                let body = tcx.hir_body(c.body);
                J::Arr(vec![
                    t("closure"),
                    J::s(self.cx.path(c.def_id.to_def_id())),
                    J::Arr(body.params.iter().map(|p| self.pat(p.pat)).collect()),
                    self.expr(body.value),
                ])
            }
            Block(b, _) => self.block(b),
            Assign(a, b, _) => J::Arr(vec![t("assign"), self.expr(a), self.expr(b)]),
            AssignOp(op, a, b) => {
                J::Arr(vec![t("assignop"), J::s(op.node.as_str()), self.expr(a), self.expr(b)])
            }
            Field(x, id) => J::Arr(vec![t("field"), self.expr(x), J::s(id.name.to_string())]),
            Index(a, b, _) => J::Arr(vec![t("index"), self.expr(a), self.expr(b)]),
            Path(q) => J::Arr(vec![t("path"), self.qpath(q, e.hir_id)]),
            AddrOf(_, _, x) => J::Arr(vec![t("addr"), self.expr(x)]),
            Break(_, x) => J::Arr(vec![t("break"), x.map(|x| self.expr(x)).into()]),
            Continue(_) => J::Arr(vec![t("continue")]),
            Ret(x) => J::Arr(vec![t("ret"), x.map(|x| self.expr(x)).into()]),
            Become(x) => J::Arr(vec![t("become"), self.expr(x)]),
            InlineAsm(_) => J::Arr(vec![t("asm")]),
            OffsetOf(..) => J::Arr(vec![t("offsetof")]),
            Struct(q, fields, tail) => J::Arr(vec![
                t("structlit"),
                self.qpath(q, e.hir_id),
                J::Arr(
                    fields
                        .iter()
                        .map(|f| J::Arr(vec![J::s(f.ident.name.to_string()), self.expr(f.expr)]))
                        .collect(),
                ),
                match tail {
                    hir::StructTailExpr::Base(b) => self.expr(b),
                    _ => J::Null,
                },
            ]),
            Repeat(x, _) => J::Arr(vec![t("repeat"), self.expr(x)]),
            Yield(x, _) => J::Arr(vec![t("yield"), self.expr(x)]),
            UnsafeBinderCast(_, x, _) => self.expr(x),
            Err(_) => J::Arr(vec![t("err")]),
        }
    }
}
