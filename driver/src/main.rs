//! jrs-facts: rustc_private driver used as RUSTC_WORKSPACE_WRAPPER.
//! For every workspace crate it writes one JSON facts file into $JRS_FACTS_DIR:
//! MIR (CFG, statements, resolved calls, asserts), HIR trees of every function body,
//! ADTs / impls / statics. All rule logic lives in the python checker.
#![feature(rustc_private)]
#![allow(clippy::all)]

extern crate rustc_abi;
extern crate rustc_ast;
extern crate rustc_data_structures;
extern crate rustc_driver;
extern crate rustc_hir;
extern crate rustc_index;
extern crate rustc_interface;
extern crate rustc_middle;
extern crate rustc_span;

mod hir_dump;
mod items;
mod json;
mod mir_dump;

use json::J;
use rustc_driver::Compilation;
use rustc_interface::interface::Compiler;
use rustc_middle::ty::TyCtxt;

struct Cb;

impl rustc_driver::Callbacks for Cb {
    fn after_analysis<'tcx>(&mut self, _c: &Compiler, tcx: TyCtxt<'tcx>) -> Compilation {
        let Ok(dir) = std::env::var("JRS_FACTS_DIR") else {
            return Compilation::Continue;
        };
        let name = tcx.crate_name(rustc_span::def_id::LOCAL_CRATE).to_string();
        if name.starts_with("build_script") {
            return Compilation::Continue;
        }
        let cx = Cx { tcx, krate: name.clone() };
        let fns = mir_dump::dump(&cx);
        let hir = hir_dump::dump(&cx);
        let items = items::dump(&cx);
        let crate_types: Vec<J> =
            tcx.crate_types().iter().map(|t| J::s(format!("{t:?}"))).collect();
        let out = J::Obj(vec![
            ("crate", J::s(name.clone())),
            ("crate_types", J::Arr(crate_types)),
            ("fns", fns),
            ("hir", hir),
            ("items", items),
        ]);
        let mut s = String::with_capacity(1 << 22);
        out.write(&mut s);
        let kind = if tcx.crate_types().iter().any(|t| format!("{t:?}") == "Executable") {
            "bin"
        } else {
            "lib"
        };
        let path = format!("{dir}/{name}.{kind}.json");
        let tmp = format!("{path}.tmp{}", std::process::id());
        std::fs::write(&tmp, s).expect("write facts");
        std::fs::rename(&tmp, &path).expect("rename facts");
        Compilation::Continue
    }
}

pub struct Cx<'tcx> {
    pub tcx: TyCtxt<'tcx>,
    pub krate: String,
}

impl<'tcx> Cx<'tcx> {
    /// Full, untrimmed path; local items are prefixed with the crate name.
    /// print with real definition paths (no re-export "visible" paths, no trimming)
    pub fn pr(&self, f: impl FnOnce() -> String) -> String {
        let s = rustc_middle::ty::print::with_no_visible_paths!(rustc_middle::ty::print::with_no_trimmed_paths!(
            rustc_middle::ty::print::with_crate_prefix!(f())
        ));
        self.fix(s)
    }
    pub fn path(&self, did: rustc_span::def_id::DefId) -> String {
        self.pr(|| self.tcx.def_path_str(did))
    }
    pub fn fix(&self, s: String) -> String {
        if s.contains("crate::") {
            s.replace("crate::", &format!("{}::", self.krate))
        } else {
            s
        }
    }
    pub fn ty(&self, t: rustc_middle::ty::Ty<'tcx>) -> String {
        self.pr(|| format!("{t}"))
    }
    pub fn loc(&self, sp: rustc_span::Span) -> (String, usize, Vec<String>) {
        // location of the outermost call site (what the user wrote), plus macro backtrace
        let mut macros = Vec::new();
        for e in sp.macro_backtrace() {
            macros.push(format!("{}", e.kind.descr()));
        }
        let root = sp.source_callsite();
        let sm = self.tcx.sess.source_map();
        let lo = sm.lookup_char_pos(root.lo());
        let file = match &lo.file.name {
            rustc_span::FileName::Real(r) => match r.local_path() {
                Some(p) => p.to_string_lossy().to_string(),
                None => format!("{:?}", lo.file.name),
            },
            o => format!("{o:?}"),
        };
        (file, lo.line, macros)
    }
}

fn main() {
    let mut args: Vec<String> = std::env::args().collect();
    // RUSTC_WORKSPACE_WRAPPER: argv[1] is the real rustc
    if args.len() > 1 && (args[1].ends_with("rustc") || args[1].contains("/rustc")) {
        args.remove(1);
    }
    rustc_driver::run_compiler(&args, &mut Cb);
}
