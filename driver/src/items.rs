//! ADTs, impls, statics of the local crate.
use crate::json::J;
use crate::Cx;
use rustc_hir::def::DefKind;
use rustc_middle::ty::{self, Ty};
use std::collections::BTreeSet;

pub fn dump<'tcx>(cx: &Cx<'tcx>) -> J {
    let tcx = cx.tcx;
    let mut adts = Vec::new();
    let mut impls = Vec::new();
    let mut statics = Vec::new();
    let mut consts = Vec::new();
    let mut traits = Vec::new();
    let sm = tcx.sess.source_map();
    for ldid in tcx.hir_crate_items(()).definitions() {
        let did = ldid.to_def_id();
        match tcx.def_kind(ldid) {
            DefKind::Struct | DefKind::Enum | DefKind::Union => {
                let adt = tcx.adt_def(did);
                let (file, line, _) = cx.loc(tcx.def_span(did));
                let mut variants = Vec::new();
                for v in adt.variants() {
                    let mut fields = Vec::new();
                    for f in &v.fields {
                        let fty = tcx.type_of(f.did).instantiate_identity().skip_norm_wip();
                        let mut attrs = Vec::new();
                        if let Some(fl) = f.did.as_local() {
                            let hid = tcx.local_def_id_to_hir_id(fl);
                            for a in tcx.hir_attrs(hid) {
                                if let Some(s) = attr_text(sm, a) {
                                    attrs.push(J::s(s));
                                }
                            }
                        }
                        let mut reach = BTreeSet::new();
                        let mut seen = Vec::new();
                        reaches(cx, fty, &mut reach, &mut seen, 0);
                        fields.push(J::Obj(vec![
                            ("name", J::s(f.name.to_string())),
                            ("ty", J::s(cx.ty(fty))),
                            ("attrs", J::Arr(attrs)),
                            ("reach", J::Arr(reach.into_iter().map(J::s).collect())),
                            ("vis", J::s(format!("{:?}", f.vis))),
                        ]));
                    }
                    variants.push(J::Obj(vec![
                        ("name", J::s(v.name.to_string())),
                        ("fields", J::Arr(fields)),
                    ]));
                }
                let mut attrs = Vec::new();
                let hid = tcx.local_def_id_to_hir_id(ldid);
                for a in tcx.hir_attrs(hid) {
                    if let Some(s) = attr_text(sm, a) {
                        attrs.push(J::s(s));
                    }
                }
                adts.push(J::Obj(vec![
                    ("path", J::s(cx.path(did))),
                    ("kind", J::s(format!("{:?}", tcx.def_kind(ldid)))),
                    ("file", J::s(file)),
                    ("line", line.into()),
                    ("attrs", J::Arr(attrs)),
                    ("variants", J::Arr(variants)),
                ]));
            }
            DefKind::Impl { of_trait } => {
                let self_ty = tcx.type_of(did).instantiate_identity().skip_norm_wip();
                let (file, line, macros) = cx.loc(tcx.def_span(did));
                let mut o = vec![
                    ("self_ty", J::s(cx.ty(self_ty))),
                    ("file", J::s(file)),
                    ("line", line.into()),
                    ("exp", J::Arr(macros.into_iter().map(J::s).collect())),
                ];
                if of_trait {
                    let tr = tcx.impl_trait_ref(did).instantiate_identity().skip_norm_wip();
                    o.push(("trait", J::s(cx.path(tr.def_id))));
                    let h = tcx.impl_trait_header(did);
                    o.push(("unsafe", J::Bool(format!("{:?}", h.safety).contains("Unsafe"))));
                }
                if let ty::Adt(adt, _) = self_ty.kind() {
                    o.push(("self_adt", J::s(cx.path(adt.did()))));
                }
                let items: Vec<J> = tcx
                    .associated_items(did)
                    .in_definition_order()
                    .filter_map(|i| i.opt_name().map(|n| J::s(n.to_string())))
                    .collect();
                o.push(("items", J::Arr(items)));
                impls.push(J::Obj(o));
            }
            DefKind::Static { .. } => {
                let ty = tcx.type_of(did).instantiate_identity().skip_norm_wip();
                let mut o = vec![("path", J::s(cx.path(did))), ("ty", J::s(cx.ty(ty)))];
                if let Ok(alloc) = tcx.eval_static_initializer(did) {
                    let a = alloc.inner();
                    if a.provenance().ptrs().is_empty() && a.len() <= 4096 {
                        let bytes = a.inspect_with_uninit_and_ptr_outside_interpreter(0..a.len());
                        o.push(("bytes", J::Arr(bytes.iter().map(|b| J::Int(*b as i128)).collect())));
                    }
                }
                statics.push(J::Obj(o));
            }
            DefKind::Const { .. } => {
                // scalar constants (no generics): const-evaluated bits, so that tables can check their values
                let ty = tcx.type_of(did).instantiate_identity().skip_norm_wip();
                if tcx.generics_of(did).count() == 0 && (ty.is_floating_point() || ty.is_integral() || ty.is_bool()) {
                    if let Ok(v) = tcx.const_eval_poly(did) {
                        if let Some(sc) = v.try_to_scalar_int() {
                            let bits = sc.to_bits(sc.size());
                            consts.push(J::Obj(vec![
                                ("path", J::s(cx.path(did))),
                                ("ty", J::s(cx.ty(ty))),
                                ("bits", J::s(format!("{bits}"))),
                            ]));
                        }
                    }
                }
            }
            DefKind::Trait => {
                let items: Vec<J> = tcx
                    .associated_items(did)
                    .in_definition_order()
                    .filter_map(|i| i.opt_name().map(|n| J::s(n.to_string())))
                    .collect();
                traits.push(J::Obj(vec![("path", J::s(cx.path(did))), ("items", J::Arr(items))]));
            }
            _ => {}
        }
    }
    J::Obj(vec![
        ("adts", J::Arr(adts)),
        ("impls", J::Arr(impls)),
        ("statics", J::Arr(statics)),
        ("consts", J::Arr(consts)),
        ("traits", J::Arr(traits)),
    ])
}

/// Which "interesting" things can a value of this type own?  Tokens: "Cc" (a gc pointer),
/// "dyn:<trait>", "param:<T>", "opaque".  Weak pointers cut the walk.
fn reaches<'tcx>(cx: &Cx<'tcx>, t: Ty<'tcx>, out: &mut BTreeSet<String>, seen: &mut Vec<Ty<'tcx>>, depth: usize) {
    let tcx = cx.tcx;
    if depth > 24 || seen.contains(&t) {
        return;
    }
    seen.push(t);
    match t.kind() {
        ty::Adt(adt, args) => {
            let p = cx.path(adt.did());
            if p.ends_with("::RawCc") || p.ends_with("::Cc") {
                out.insert("Cc".into());
                return;
            }
            if p.ends_with("Weak") || p.contains("::RawWeak") {
                return;
            }
            if adt.is_phantom_data() {
                // PhantomData<T> marks logical ownership in std containers
                for a in args.types() {
                    reaches(cx, a, out, seen, depth + 1);
                }
                return;
            }
            for a in args.types() {
                reaches(cx, a, out, seen, depth + 1);
            }
            if adt.did().is_local() || depth < 6 {
                for v in adt.variants() {
                    for f in &v.fields {
                        let ft = f.ty(tcx, args);
                        reaches(cx, ft, out, seen, depth + 1);
                    }
                }
            }
        }
        ty::Ref(_, inner, _) => reaches(cx, *inner, out, seen, depth + 1),
        ty::RawPtr(inner, _) => reaches(cx, *inner, out, seen, depth + 1),
        ty::Array(inner, _) | ty::Slice(inner) => reaches(cx, *inner, out, seen, depth + 1),
        ty::Tuple(ts) => {
            for x in ts.iter() {
                reaches(cx, x, out, seen, depth + 1);
            }
        }
        ty::Dynamic(preds, _) => {
            let name = preds.principal_def_id().map(|d| cx.path(d)).unwrap_or_else(|| "?".into());
            out.insert(format!("dyn:{name}"));
        }
        ty::Param(p) => {
            out.insert(format!("param:{}", p.name));
        }
        ty::Closure(_, args) => {
            for x in args.as_closure().upvar_tys() {
                reaches(cx, x, out, seen, depth + 1);
            }
        }
        ty::Alias(..) => {
            out.insert("opaque".into());
        }
        _ => {}
    }
}

fn attr_text(sm: &rustc_span::source_map::SourceMap, a: &rustc_hir::Attribute) -> Option<String> {
    match a {
        rustc_hir::Attribute::Unparsed(u) => sm.span_to_snippet(u.span).ok(),
        rustc_hir::Attribute::Parsed(k) => {
            let d = format!("{k:?}");
            Some(format!("parsed:{}", d.split(|c: char| !c.is_alphanumeric()).next().unwrap_or("")))
        }
    }
}
