use crate::json::J;
use crate::Cx;
use rustc_hir::def::DefKind;
use rustc_middle::mir::*;
use rustc_middle::ty::{self, Ty, TyCtxt};
use rustc_middle::ty::print::PrintTraitRefExt;
use rustc_span::def_id::{DefId, LocalDefId};

pub fn dump<'tcx>(cx: &Cx<'tcx>) -> J {
    let tcx = cx.tcx;
    let mut out = Vec::new();
    for &ldid in tcx.mir_keys(()).iter() {
        let kind = tcx.def_kind(ldid);
        if !matches!(kind, DefKind::Fn | DefKind::AssocFn | DefKind::Closure) {
            continue;
        }
        if tcx.is_coroutine(ldid.to_def_id()) {
            continue;
        }
        out.push(dump_fn(cx, ldid, kind));
    }
    J::Arr(out)
}

fn dump_fn<'tcx>(cx: &Cx<'tcx>, ldid: LocalDefId, kind: DefKind) -> J {
    let tcx = cx.tcx;
    let did = ldid.to_def_id();
    let body: &Body<'tcx> = tcx.optimized_mir(did);
    let (file, line, macros) = cx.loc(tcx.def_span(did));
    let mut o: Vec<(&'static str, J)> = vec![
        ("path", J::s(cx.path(did))),
        ("kind", J::s(format!("{kind:?}"))),
        ("file", J::s(file)),
        ("line", line.into()),
        ("exp", J::Arr(macros.into_iter().map(J::s).collect())),
        ("arg_count", body.arg_count.into()),
    ];
    // parent (closure -> enclosing fn; assoc fn -> impl)
    let parent = tcx.parent(did);
    o.push(("parent", J::s(cx.path(parent))));
    if matches!(kind, DefKind::Closure) {
        let root = tcx.typeck_root_def_id(did);
        o.push(("root", J::s(cx.path(root))));
    }
    if matches!(kind, DefKind::AssocFn) {
        if let DefKind::Impl { of_trait } = tcx.def_kind(parent) {
            let self_ty = tcx.type_of(parent).instantiate_identity().skip_norm_wip();
            o.push(("self_ty", J::s(cx.ty(self_ty))));
            if of_trait {
                let tr = tcx.impl_trait_ref(parent).instantiate_identity().skip_norm_wip();
                o.push(("impl_trait", J::s(cx.path(tr.def_id))));
                o.push(("impl_trait_full", J::s(cx.pr(|| format!("{}", tr.print_only_trait_path())))));
            }
        } else if matches!(tcx.def_kind(parent), DefKind::Trait) {
            o.push(("in_trait", J::s(cx.path(parent))));
        }
    }
    if matches!(kind, DefKind::Fn | DefKind::AssocFn) {
        o.push(("vis", J::s(format!("{:?}", tcx.visibility(did)))));
        let names: Vec<J> = tcx
            .fn_arg_idents(did)
            .iter()
            .map(|i| match i {
                Some(i) => J::s(i.name.to_string()),
                None => J::Null,
            })
            .collect();
        o.push(("arg_names", J::Arr(names)));
    }
    // locals
    let locals: Vec<J> = body.local_decls.iter().map(|d| J::s(cx.ty(d.ty))).collect();
    o.push(("locals", J::Arr(locals)));
    // debug names
    let mut vars = Vec::new();
    for v in &body.var_debug_info {
        if let VarDebugInfoContents::Place(p) = &v.value {
            vars.push(J::Arr(vec![J::s(v.name.to_string()), place(cx, body, *p)]));
        }
    }
    o.push(("vars", J::Arr(vars)));
    // blocks
    let mut blocks = Vec::new();
    for (_bb, data) in body.basic_blocks.iter_enumerated() {
        let mut st = Vec::new();
        for s in &data.statements {
            if let Some(j) = stmt(cx, body, s) {
                st.push(j);
            }
        }
        let t = term(cx, ldid, body, data.terminator());
        blocks.push(J::Obj(vec![
            ("s", J::Arr(st)),
            ("t", t),
            ("c", data.is_cleanup.into()),
        ]));
    }
    o.push(("blocks", J::Arr(blocks)));
    J::Obj(o)
}

fn place<'tcx>(cx: &Cx<'tcx>, body: &Body<'tcx>, p: Place<'tcx>) -> J {
    let tcx = cx.tcx;
    let mut v = vec![J::Int(p.local.as_u32() as i128)];
    for (base, elem) in p.iter_projections() {
        let s = match elem {
            ProjectionElem::Deref => "*".to_string(),
            ProjectionElem::Field(f, _) => {
                let bt = base.ty(&body.local_decls, tcx);
                let mut name = None;
                if let ty::Adt(adt, _) = bt.ty.kind() {
                    let vi = bt.variant_index.unwrap_or(rustc_abi::FIRST_VARIANT);
                    if adt.is_enum() || adt.is_struct() || adt.is_union() {
                        if let Some(var) = adt.variants().get(vi) {
                            if let Some(fd) = var.fields.get(f) {
                                name = Some(fd.name.to_string());
                            }
                        }
                    }
                }
                match name {
                    Some(n) => format!(".{}:{}", f.as_u32(), n),
                    None => format!(".{}", f.as_u32()),
                }
            }
            ProjectionElem::Index(l) => format!("[_{}]", l.as_u32()),
            ProjectionElem::ConstantIndex { offset, from_end, .. } => {
                format!("[c{}{}]", if from_end { "-" } else { "" }, offset)
            }
            ProjectionElem::Subslice { from, to, from_end } => {
                format!("[{}..{}{}]", from, if from_end { "-" } else { "" }, to)
            }
            ProjectionElem::Downcast(name, vi) => match name {
                Some(n) => format!("as:{}", n),
                None => format!("as:#{}", vi.as_u32()),
            },
            ProjectionElem::OpaqueCast(_) => "opaque".to_string(),
            ProjectionElem::UnwrapUnsafeBinder(_) => "unwrap_binder".to_string(),
        };
        v.push(J::s(s));
    }
    J::Arr(v)
}

fn const_val<'tcx>(cx: &Cx<'tcx>, owner: Option<LocalDefId>, c: &ConstOperand<'tcx>) -> J {
    let tcx = cx.tcx;
    let ty = c.const_.ty();
    if let ty::FnDef(did, gargs) = ty.kind() {
        return J::Arr(vec![
            J::s("fn"),
            J::s(cx.path(*did)),
            J::Arr(gargs.iter().map(|a| J::s(cx.pr(|| format!("{a}")))).collect()),
        ]);
    }
    let mut val = J::Null;
    if ty.is_integral() || ty.is_bool() || ty.is_char() {
        let env = match owner {
            Some(o) => ty::TypingEnv::post_analysis(tcx, o),
            None => ty::TypingEnv::fully_monomorphized(),
        };
        if let Some(si) = c.const_.try_eval_scalar_int(tcx, env) {
            let size = si.size();
            if ty.is_signed() {
                val = J::Int(si.to_int(size));
            } else {
                val = J::Int(si.to_uint(size) as i128);
            }
        }
    } else if ty.is_floating_point() {
        val = J::s(format!("{}", c.const_));
    } else if let ty::Ref(_, inner, _) = ty.kind() {
        if inner.is_str() {
            val = J::s(format!("{}", c.const_));
        }
    }
    J::Arr(vec![J::s("c"), J::s(cx.ty(ty)), val])
}

fn operand<'tcx>(cx: &Cx<'tcx>, owner: Option<LocalDefId>, body: &Body<'tcx>, op: &Operand<'tcx>) -> J {
    match op {
        Operand::Copy(p) => J::Arr(vec![J::s("cp"), place(cx, body, *p)]),
        Operand::Move(p) => J::Arr(vec![J::s("mv"), place(cx, body, *p)]),
        Operand::Constant(c) => const_val(cx, owner, c),
        Operand::RuntimeChecks(_) => J::Arr(vec![J::s("rtc")]),
    }
}

fn stmt<'tcx>(cx: &Cx<'tcx>, body: &Body<'tcx>, s: &Statement<'tcx>) -> Option<J> {
    let tcx = cx.tcx;
    let owner = body.source.def_id().as_local();
    let line = {
        let sm = tcx.sess.source_map();
        sm.lookup_char_pos(s.source_info.span.source_callsite().lo()).line
    };
    match &s.kind {
        StatementKind::Assign(b) => {
            let (p, rv) = &**b;
            let r = match rv {
                Rvalue::Use(op, _) => J::Arr(vec![J::s("use"), operand(cx, owner, body, op)]),
                Rvalue::Repeat(op, _) => J::Arr(vec![J::s("repeat"), operand(cx, owner, body, op)]),
                Rvalue::Ref(_, bk, pl) => J::Arr(vec![
                    J::s("ref"),
                    J::s(match bk {
                        BorrowKind::Shared => "shared",
                        BorrowKind::Fake(_) => "fake",
                        BorrowKind::Mut { .. } => "mut",
                    }),
                    place(cx, body, *pl),
                ]),
                Rvalue::ThreadLocalRef(d) => J::Arr(vec![J::s("tls"), J::s(cx.path(*d))]),
                Rvalue::RawPtr(_, pl) => J::Arr(vec![J::s("rawptr"), place(cx, body, *pl)]),
                Rvalue::Cast(k, op, t) => J::Arr(vec![
                    J::s("cast"),
                    J::s(format!("{k:?}")),
                    operand(cx, owner, body, op),
                    J::s(cx.ty(*t)),
                    J::s(cx.ty(op.ty(&body.local_decls, tcx))),
                ]),
                Rvalue::BinaryOp(op, ab) => J::Arr(vec![
                    J::s("bin"),
                    J::s(format!("{op:?}")),
                    operand(cx, owner, body, &ab.0),
                    operand(cx, owner, body, &ab.1),
                    J::s(cx.ty(ab.0.ty(&body.local_decls, tcx))),
                ]),
                Rvalue::UnaryOp(op, a) => J::Arr(vec![
                    J::s("un"),
                    J::s(format!("{op:?}")),
                    operand(cx, owner, body, a),
                    J::s(cx.ty(a.ty(&body.local_decls, tcx))),
                ]),
                Rvalue::Discriminant(pl) => J::Arr(vec![
                    J::s("discr"),
                    place(cx, body, *pl),
                    J::s(cx.ty(pl.ty(&body.local_decls, tcx).ty)),
                ]),
                Rvalue::Aggregate(k, ops) => {
                    let (kn, name, variant) = match &**k {
                        AggregateKind::Array(_) => ("array", String::new(), String::new()),
                        AggregateKind::Tuple => ("tuple", String::new(), String::new()),
                        AggregateKind::Adt(did, vi, _, _, _) => {
                            let adt = tcx.adt_def(*did);
                            ("adt", cx.path(*did), adt.variant(*vi).name.to_string())
                        }
                        AggregateKind::Closure(did, _) => ("closure", cx.path(*did), String::new()),
                        AggregateKind::Coroutine(did, _) => ("coroutine", cx.path(*did), String::new()),
                        AggregateKind::CoroutineClosure(did, _) => {
                            ("coroutine_closure", cx.path(*did), String::new())
                        }
                        AggregateKind::RawPtr(..) => ("rawptr", String::new(), String::new()),
                    };
                    let mut fields = Vec::new();
                    if let AggregateKind::Adt(did, vi, _, _, active) = &**k {
                        let adt = tcx.adt_def(*did);
                        for (i, fd) in adt.variant(*vi).fields.iter().enumerate() {
                            if active.is_some() && Some(i) != active.map(|a| a.as_usize()) {
                                continue;
                            }
                            fields.push(J::s(fd.name.to_string()));
                        }
                    }
                    J::Arr(vec![
                        J::s("agg"),
                        J::s(kn),
                        J::s(name),
                        J::s(variant),
                        J::Arr(ops.iter().map(|o| operand(cx, owner, body, o)).collect()),
                        J::Arr(fields),
                    ])
                }
                Rvalue::CopyForDeref(pl) => {
                    J::Arr(vec![J::s("use"), J::Arr(vec![J::s("cp"), place(cx, body, *pl)])])
                }
                Rvalue::WrapUnsafeBinder(op, _) => {
                    J::Arr(vec![J::s("use"), operand(cx, owner, body, op)])
                }
            };
            Some(J::Arr(vec![J::s("a"), place(cx, body, *p), r, line.into()]))
        }
        StatementKind::SetDiscriminant { place: p, variant_index } => {
            let pt = p.ty(&body.local_decls, tcx).ty;
            let vn = match pt.kind() {
                ty::Adt(adt, _) => adt.variant(*variant_index).name.to_string(),
                _ => format!("#{}", variant_index.as_u32()),
            };
            Some(J::Arr(vec![J::s("sd"), place(cx, body, **p), J::s(vn), line.into()]))
        }
        StatementKind::StorageDead(l) => Some(J::Arr(vec![J::s("dead"), J::Int(l.as_u32() as i128)])),
        StatementKind::Intrinsic(i) => match &**i {
            NonDivergingIntrinsic::Assume(_) => None,
            NonDivergingIntrinsic::CopyNonOverlapping(_) => Some(J::Arr(vec![J::s("copy_nonoverlapping")])),
        },
        _ => None,
    }
}

fn bbj(b: BasicBlock) -> J {
    J::Int(b.as_u32() as i128)
}

fn unwind(u: &UnwindAction) -> J {
    match u {
        UnwindAction::Cleanup(b) => bbj(*b),
        _ => J::Null,
    }
}

fn switch_variants<'tcx>(tcx: TyCtxt<'tcx>, body: &Body<'tcx>, discr: &Operand<'tcx>, bbdata: Option<&BasicBlockData<'tcx>>) -> Option<Ty<'tcx>> {
    // If the switch operand is a local assigned `Discriminant(place)` in the same block, return the enum type.
    let p = discr.place()?;
    let l = p.as_local()?;
    let data = bbdata?;
    for s in data.statements.iter().rev() {
        if let StatementKind::Assign(b) = &s.kind {
            if b.0.as_local() == Some(l) {
                if let Rvalue::Discriminant(pl) = &b.1 {
                    return Some(pl.ty(&body.local_decls, tcx).ty);
                }
                return None;
            }
        }
    }
    None
}

fn term<'tcx>(cx: &Cx<'tcx>, ldid: LocalDefId, body: &Body<'tcx>, t: &Terminator<'tcx>) -> J {
    let tcx = cx.tcx;
    let owner = Some(ldid);
    let (file, line, macros) = cx.loc(t.source_info.span);
    let _ = file;
    let exp = J::Arr(macros.into_iter().map(J::s).collect());
    match &t.kind {
        TerminatorKind::Goto { target } => J::Arr(vec![J::s("goto"), bbj(*target)]),
        TerminatorKind::SwitchInt { discr, targets } => {
            // find the block this terminator belongs to, to name enum variants
            let mut enum_ty = None;
            for data in body.basic_blocks.iter() {
                if std::ptr::eq(data.terminator(), t) {
                    enum_ty = switch_variants(tcx, body, discr, Some(data));
                    break;
                }
            }
            let mut arms = Vec::new();
            for (v, b) in targets.iter() {
                let mut name = J::Null;
                if let Some(et) = enum_ty {
                    if let ty::Adt(adt, _) = et.kind() {
                        if adt.is_enum() {
                            for (vi, d) in adt.discriminants(tcx) {
                                if d.val == v {
                                    name = J::s(adt.variant(vi).name.to_string());
                                }
                            }
                        }
                    }
                }
                arms.push(J::Arr(vec![J::Int(v as i128), bbj(b), name]));
            }
            let mut o = vec![
                J::s("switch"),
                operand(cx, owner, body, discr),
                J::Arr(arms),
                bbj(targets.otherwise()),
                J::s(cx.ty(discr.ty(&body.local_decls, tcx))),
            ];
            if let Some(et) = enum_ty {
                o.push(J::s(cx.ty(et)));
                // all variant names, so the checker can name the otherwise edge
                if let ty::Adt(adt, _) = et.kind() {
                    if adt.is_enum() {
                        o.push(J::Arr(adt.variants().iter().map(|v| J::s(v.name.to_string())).collect()));
                    }
                }
            }
            J::Arr(o)
        }
        TerminatorKind::UnwindResume => J::Arr(vec![J::s("resume")]),
        TerminatorKind::UnwindTerminate(_) => J::Arr(vec![J::s("terminate")]),
        TerminatorKind::Return => J::Arr(vec![J::s("ret")]),
        TerminatorKind::Unreachable => J::Arr(vec![J::s("unreachable")]),
        TerminatorKind::Drop { place: p, target, unwind: u, .. } => J::Arr(vec![
            J::s("drop"),
            place(cx, body, *p),
            bbj(*target),
            unwind(u),
            J::s(cx.ty(p.ty(&body.local_decls, tcx).ty)),
            line.into(),
        ]),
        TerminatorKind::Call { func, args, destination, target, unwind: u, .. } => {
            let mut o: Vec<(&'static str, J)> = Vec::new();
            o.push(("k", J::s("call")));
            if let Some((callee, gargs)) = func.const_fn_def() {
                o.push(("fn", J::s(cx.path(callee))));
                o.push((
                    "gargs",
                    J::Arr(gargs.iter().map(|a| J::s(cx.pr(|| format!("{a}")))).collect()),
                ));
                let env = ty::TypingEnv::post_analysis(tcx, ldid);
                let gargs2 = tcx.try_normalize_erasing_regions(env, rustc_middle::ty::Unnormalized::new_wip(gargs)).unwrap_or(gargs);
                match ty::Instance::try_resolve(tcx, env, callee, gargs2) {
                    Ok(Some(inst)) => {
                        let rd = inst.def_id();
                        o.push(("res", J::s(cx.path(rd))));
                        let ik = match inst.def {
                            ty::InstanceKind::Item(_) => "item",
                            ty::InstanceKind::Intrinsic(_) => "intrinsic",
                            ty::InstanceKind::Virtual(..) => "virtual",
                            ty::InstanceKind::ClosureOnceShim { .. } => "closure_once",
                            ty::InstanceKind::FnPtrShim(..) => "fnptr_shim",
                            ty::InstanceKind::DropGlue(..) => "drop_glue",
                            ty::InstanceKind::CloneShim(..) => "clone_shim",
                            ty::InstanceKind::ReifyShim(..) => "reify",
                            ty::InstanceKind::VTableShim(..) => "vtable_shim",
                            _ => "other",
                        };
                        o.push(("ik", J::s(ik)));
                    }
                    _ => {
                        o.push(("res", J::Null));
                    }
                }
                // trait the (unresolved) callee belongs to, if any
                if let Some(tr) = tcx.trait_of_assoc(callee) {
                    o.push(("trait", J::s(cx.path(tr))));
                }
            } else {
                o.push(("fnop", operand(cx, owner, body, func)));
                o.push(("fnty", J::s(cx.ty(func.ty(&body.local_decls, tcx)))));
            }
            o.push(("args", J::Arr(args.iter().map(|a| operand(cx, owner, body, &a.node)).collect())));
            o.push(("argtys", J::Arr(args.iter().map(|a| J::s(cx.ty(a.node.ty(&body.local_decls, tcx)))).collect())));
            o.push(("dest", place(cx, body, *destination)));
            o.push(("target", match target { Some(b) => bbj(*b), None => J::Null }));
            o.push(("unwind", unwind(u)));
            o.push(("line", line.into()));
            o.push(("exp", exp));
            J::Obj(o)
        }
        TerminatorKind::TailCall { .. } => J::Arr(vec![J::s("tailcall")]),
        TerminatorKind::Assert { cond, expected, msg, target, unwind: u } => {
            let (kind, ops, ity): (String, Vec<J>, String) = match &**msg {
                AssertKind::BoundsCheck { len, index } => (
                    "BoundsCheck".into(),
                    vec![operand(cx, owner, body, len), operand(cx, owner, body, index)],
                    String::new(),
                ),
                AssertKind::Overflow(op, a, b) => (
                    format!("Overflow:{op:?}"),
                    vec![operand(cx, owner, body, a), operand(cx, owner, body, b)],
                    cx.ty(a.ty(&body.local_decls, tcx)),
                ),
                AssertKind::OverflowNeg(a) => (
                    "OverflowNeg".into(),
                    vec![operand(cx, owner, body, a)],
                    cx.ty(a.ty(&body.local_decls, tcx)),
                ),
                AssertKind::DivisionByZero(a) => (
                    "DivisionByZero".into(),
                    vec![operand(cx, owner, body, a)],
                    cx.ty(a.ty(&body.local_decls, tcx)),
                ),
                AssertKind::RemainderByZero(a) => (
                    "RemainderByZero".into(),
                    vec![operand(cx, owner, body, a)],
                    cx.ty(a.ty(&body.local_decls, tcx)),
                ),
                other => (format!("{:?}", std::mem::discriminant(other)), vec![], String::new()),
            };
            J::Obj(vec![
                ("k", J::s("assert")),
                ("cond", operand(cx, owner, body, cond)),
                ("expected", (*expected).into()),
                ("kind", J::s(kind)),
                ("ops", J::Arr(ops)),
                ("ity", J::s(ity)),
                ("target", bbj(*target)),
                ("unwind", unwind(u)),
                ("line", line.into()),
                ("exp", exp),
            ])
        }
        TerminatorKind::FalseEdge { real_target, .. } => J::Arr(vec![J::s("goto"), bbj(*real_target)]),
        TerminatorKind::FalseUnwind { real_target, .. } => J::Arr(vec![J::s("goto"), bbj(*real_target)]),
        TerminatorKind::InlineAsm { .. } => J::Arr(vec![J::s("asm")]),
        TerminatorKind::Yield { .. } | TerminatorKind::CoroutineDrop => J::Arr(vec![J::s("coroutine")]),
    }
}

#[allow(dead_code)]
fn _unused(_: DefId) {}
