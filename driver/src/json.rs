//! Minimal JSON value + writer (the driver has no dependencies).
use std::fmt::Write;

#[derive(Clone, Debug)]
pub enum J {
    Null,
    Bool(bool),
    Int(i128),
    Str(String),
    Arr(Vec<J>),
    Obj(Vec<(&'static str, J)>),
}

impl J {
    pub fn s<S: Into<String>>(s: S) -> J {
        J::Str(s.into())
    }
    pub fn arr<I: IntoIterator<Item = J>>(i: I) -> J {
        J::Arr(i.into_iter().collect())
    }
    pub fn write(&self, out: &mut String) {
        match self {
            J::Null => out.push_str("null"),
            J::Bool(b) => out.push_str(if *b { "true" } else { "false" }),
            J::Int(i) => {
                let _ = write!(out, "{i}");
            }
            J::Str(s) => write_str(s, out),
            J::Arr(a) => {
                out.push('[');
                for (i, v) in a.iter().enumerate() {
                    if i > 0 {
                        out.push(',');
                    }
                    v.write(out);
                }
                out.push(']');
            }
            J::Obj(o) => {
                out.push('{');
                for (i, (k, v)) in o.iter().enumerate() {
                    if i > 0 {
                        out.push(',');
                    }
                    write_str(k, out);
                    out.push(':');
                    v.write(out);
                }
                out.push('}');
            }
        }
    }
}

fn write_str(s: &str, out: &mut String) {
    out.push('"');
    for c in s.chars() {
        match c {
            '"' => out.push_str("\\\""),
            '\\' => out.push_str("\\\\"),
            '\n' => out.push_str("\\n"),
            '\r' => out.push_str("\\r"),
            '\t' => out.push_str("\\t"),
            c if (c as u32) < 0x20 => {
                let _ = write!(out, "\\u{:04x}", c as u32);
            }
            c => out.push(c),
        }
    }
    out.push('"');
}

impl From<&str> for J {
    fn from(s: &str) -> J {
        J::Str(s.to_owned())
    }
}
impl From<String> for J {
    fn from(s: String) -> J {
        J::Str(s)
    }
}
impl From<bool> for J {
    fn from(b: bool) -> J {
        J::Bool(b)
    }
}
impl From<usize> for J {
    fn from(b: usize) -> J {
        J::Int(b as i128)
    }
}
impl From<u32> for J {
    fn from(b: u32) -> J {
        J::Int(b as i128)
    }
}
impl<T: Into<J>> From<Option<T>> for J {
    fn from(b: Option<T>) -> J {
        match b {
            Some(v) => v.into(),
            None => J::Null,
        }
    }
}
