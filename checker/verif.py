#!/usr/bin/env python3
"""verif.py check <Cxx> [--tier quick|thorough] [--only <replay.json>]

Static checks of the jrsonnet properties.  Every run analyses /repo's current working tree
(facts are cached by content hash only).  Exit 0 = held (possibly with KNOWN-FINDING lines);
1 = at least one `VIOLATION property=<id> replay=<path>`; 2 = CHECKER-BROKEN.
"""
import argparse
import json
import os
import sys
import time

sys.path.insert(0, os.path.dirname(os.path.abspath(__file__)))
from jrs import facts, mir, report, props  # noqa: E402


def main():
    ap = argparse.ArgumentParser()
    ap.add_argument("cmd", choices=["check", "facts", "list"])
    ap.add_argument("prop", nargs="?")
    ap.add_argument("--tier", default=os.environ.get("VERIF_TIER") or "quick")
    ap.add_argument("--only")
    a = ap.parse_args()
    if a.cmd == "list":
        for k in sorted(props.PROPS):
            print(k)
        return 0
    if a.cmd == "facts":
        print(facts.ensure(a.prop or "default"))
        return 0
    if a.prop == "ALL":
        # every property's quick check over one loaded program (used by the self-tests; MANIFEST registers the single checks)
        d = facts.ensure("default")
        prog = mir.Program(d)
        prog.cfg = "default"
        rc = 0
        for name in sorted(props.PROPS):
            t0 = time.time()
            try:
                obs, floors, m = props.PROPS[name]["run"](prog, "quick")
                rc = max(rc, report.finish(name, "quick", t0, obs, floors, m))
            except SystemExit as e:
                print(str(e))
                rc = 2
        if os.environ.get("JRS_RECORD_ANCHORS"):
            prog.dump_anchors(os.path.join(report.VERIF, "tables", "anchors.json"))
        return rc
    t0 = time.time()
    p = props.PROPS.get(a.prop)
    if p is None:
        print("unknown property", a.prop, file=sys.stderr)
        return 2
    only = None
    if a.only:
        with open(a.only) as fh:
            only = json.load(fh)["obligation"]["key"]
    tier = a.tier if a.tier in ("quick", "thorough") else "quick"
    cfgs = ["default"] if tier == "quick" else p.get("thorough_cfgs", ["default", "experimental", "pegparser", "capi-nodefault"])
    allobs, allfloors, meta = [], [], None
    try:
        for cfg in cfgs:
            d = facts.ensure(cfg)
            prog = mir.Program(d)
            prog.cfg = cfg
            obs, floors, m = p["run"](prog, tier)
            if cfg != "default":
                # a violation names the configuration it appears in; the same obligation in the
                # default build is reported once
                seen = {o.key: o.status for o in allobs}
                # an obligation that holds in the default build but not in this configuration is still a violation
                obs = [o for o in obs if o.key not in seen or (o.status == "open" and seen[o.key] != "open")]
                # "anchor not found" obligations carry no site; in a configuration that compiles only part of the workspace they
                # mean "this crate is not built here" (the default configuration, which builds everything, fails closed on them)
                obs = [o for o in obs if not (o.status == "open" and not o.site)]
                for o in obs:
                    if o.status == "open":
                        o.why = "[cfg %s] %s" % (cfg, o.why)
                floors = []
            allobs.extend(obs)
            allfloors.extend(floors)
            if meta is None:
                meta = m
        if tier == "thorough" and p.get("thorough_extra"):
            obs, floors = p["thorough_extra"]()
            allobs.extend(obs)
            allfloors.extend(floors)
    except SystemExit as e:
        msg = str(e)
        print(msg)
        return 2 if "CHECKER-BROKEN" in msg else 2
    return report.finish(a.prop, tier, t0, allobs, allfloors, meta, only=only, cfgs=cfgs)


if __name__ == "__main__":
    sys.exit(main())
