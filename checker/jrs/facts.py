"""Fact extraction: runs the rustc_private driver over /repo's *current working tree*.

The cache is keyed only by a content hash of the tree (+ driver binary + configuration), so an
edited tree is always re-analysed.  Fails closed if a workspace unit produced no fresh facts file.
"""
import fcntl
import glob
import hashlib
import json
import os
import shutil
import subprocess
import sys
import time

VERIF = os.path.dirname(os.path.dirname(os.path.dirname(os.path.abspath(__file__))))
REPO = os.environ.get("JRS_REPO", "/repo")
CACHE = os.path.join(VERIF, ".cache")
DRIVER_DIR = os.path.join(VERIF, "driver")
DRIVER = os.path.join(DRIVER_DIR, "target", "release", "jrs-facts")

# configurations the repository can be built in; "default" is what the test-suite builds.
CONFIGS = {
    "default": {
        "args": ["--workspace"],
        "expect": [
            "jrsonnet_macros.lib", "jrsonnet_types.lib", "jrsonnet_interner.lib", "jrsonnet_ir.lib",
            "jrsonnet_lexer.lib", "jrsonnet_ir_parser.lib", "jrsonnet_peg_parser.lib",
            "jrsonnet_rowan_parser.lib", "jrsonnet_formatter.lib", "jrsonnet_evaluator.lib",
            "jrsonnet_stdlib.lib", "jrsonnet_cli.lib", "jrsonnet.bin", "jrsonnet_fmt.bin",
            "jrsonnet_deps.bin", "jsonnet.lib", "tests.lib", "xtask.bin",
        ],
    },
    "experimental": {
        "args": ["-p", "jrsonnet", "--features", "experimental"],
        "expect": ["jrsonnet_evaluator.lib", "jrsonnet_stdlib.lib", "jrsonnet_cli.lib", "jrsonnet.bin",
                   "jrsonnet_ir.lib", "jrsonnet_ir_parser.lib"],
    },
    "pegparser": {
        "args": ["-p", "tests", "--features", "peg-parser"],
        "expect": ["jrsonnet_evaluator.lib", "jrsonnet_stdlib.lib", "tests.lib", "jrsonnet_peg_parser.lib"],
    },
    "capi-nodefault": {
        "args": ["-p", "libjsonnet", "--no-default-features"],
        "expect": ["jsonnet.lib", "jrsonnet_evaluator.lib", "jrsonnet_stdlib.lib"],
    },
}

MEMBER_PREFIXES = ("jrsonnet", "libjsonnet", "tests-", "xtask-", "jsonnet-")
NOT_MEMBERS = ("jrsonnet-gcmodule",)


def log(*a):
    print("[facts]", *a, file=sys.stderr, flush=True)


def tree_hash():
    h = hashlib.sha256()
    files = []
    for root, dirs, fs in os.walk(REPO):
        rel = os.path.relpath(root, REPO)
        dirs[:] = sorted(d for d in dirs if not (rel == "." and d in ("target", ".git")) and d != ".git")
        for f in sorted(fs):
            files.append(os.path.join(root, f))
    for p in files:
        try:
            with open(p, "rb") as fh:
                data = fh.read()
        except OSError:
            continue
        h.update(os.path.relpath(p, REPO).encode())
        h.update(b"\0")
        h.update(hashlib.sha256(data).digest())
    return h.hexdigest()[:20]


def driver_hash():
    ensure_driver()
    with open(DRIVER, "rb") as fh:
        return hashlib.sha256(fh.read()).hexdigest()[:12]


def ensure_driver():
    srcs = glob.glob(os.path.join(DRIVER_DIR, "src", "*.rs")) + [os.path.join(DRIVER_DIR, "Cargo.toml")]
    if os.path.exists(DRIVER) and all(os.path.getmtime(DRIVER) >= os.path.getmtime(s) for s in srcs):
        return
    os.makedirs(CACHE, exist_ok=True)
    with open(os.path.join(CACHE, "driver.lock"), "w") as lk:
        fcntl.flock(lk, fcntl.LOCK_EX)
        if os.path.exists(DRIVER) and all(os.path.getmtime(DRIVER) >= os.path.getmtime(s) for s in srcs):
            return
        log("building driver")
        env = dict(os.environ, CARGO_NET_OFFLINE="true")
        r = subprocess.run(["cargo", "+nightly", "build", "--release", "--offline"], cwd=DRIVER_DIR, env=env,
                           stdout=subprocess.PIPE, stderr=subprocess.STDOUT, text=True)
        if r.returncode != 0:
            print(r.stdout[-4000:], file=sys.stderr)
            raise SystemExit("CHECKER-BROKEN: driver build failed")


def sysroot():
    return subprocess.check_output(["rustc", "+nightly", "--print", "sysroot"], text=True).strip()


def ensure(cfg="default"):
    """Return the directory holding facts for /repo's current tree in configuration cfg."""
    os.makedirs(CACHE, exist_ok=True)
    key = "%s-%s-%s" % (cfg, tree_hash(), driver_hash())
    d = os.path.join(CACHE, "facts", key)
    if os.path.exists(os.path.join(d, ".complete")):
        try:
            os.utime(d)
        except OSError:
            pass
        return d
    with open(os.path.join(CACHE, "extract-%s.lock" % cfg), "w") as lk:
        fcntl.flock(lk, fcntl.LOCK_EX)
        if os.path.exists(os.path.join(d, ".complete")):
            return d
        t0 = time.time()
        if os.path.exists(d):
            shutil.rmtree(d)
        os.makedirs(d)
        target = os.path.join(CACHE, "target-" + cfg)
        fp = os.path.join(target, "debug", ".fingerprint")
        if os.path.isdir(fp):
            for e in os.listdir(fp):
                if e.startswith(MEMBER_PREFIXES) and not e.startswith(NOT_MEMBERS):
                    shutil.rmtree(os.path.join(fp, e), ignore_errors=True)
        env = dict(os.environ)
        env.update({
            "JRS_FACTS_DIR": d,
            "LD_LIBRARY_PATH": sysroot() + "/lib",
            "RUSTFLAGS": "-Zmir-opt-level=0 -Awarnings",
            "RUSTC_WORKSPACE_WRAPPER": DRIVER,
            "CARGO_TARGET_DIR": target,
            "CARGO_NET_OFFLINE": "true",
            "CARGO_INCREMENTAL": "0",
        })
        env.pop("RUSTC_WRAPPER", None)
        cmd = ["cargo", "+nightly", "check", "--offline"] + CONFIGS[cfg]["args"]
        log("extracting", cfg, "facts:", " ".join(cmd))
        r = subprocess.run(cmd, cwd=REPO, env=env, stdout=subprocess.PIPE, stderr=subprocess.STDOUT, text=True)
        if r.returncode != 0:
            tail = "\n".join(l for l in r.stdout.splitlines() if not l.startswith("   Compiling"))[-6000:]
            print(tail, file=sys.stderr)
            shutil.rmtree(d, ignore_errors=True)
            raise SystemExit("CHECKER-BROKEN: /repo does not build under the analysis driver (cfg %s)" % cfg)
        missing = [u for u in CONFIGS[cfg]["expect"] if not os.path.exists(os.path.join(d, u + ".json"))]
        if missing:
            shutil.rmtree(d, ignore_errors=True)
            raise SystemExit("CHECKER-BROKEN: no fresh facts for units %s (cfg %s)" % (missing, cfg))
        with open(os.path.join(d, ".complete"), "w") as fh:
            fh.write("%.1f\n" % (time.time() - t0))
        log("extracted in %.1fs -> %s" % (time.time() - t0, d))
        # prune old fact dirs of this cfg (keep the 10 most recently used)
        base = os.path.join(CACHE, "facts")
        olds = sorted((e for e in os.listdir(base) if e.startswith(cfg + "-")),
                      key=lambda e: os.path.getmtime(os.path.join(base, e)))
        for e in olds[:-10]:
            shutil.rmtree(os.path.join(base, e), ignore_errors=True)
    return d
