"""R-PRINTF: conversion / flag tables of std.format against Python-style %-formatting; value accounting."""
from .. import hir as H
from ..mir import strip, show, short_path, contains
from ..report import ok, bad, info, site, Floor

RULE = "R-PRINTF"
F = "jrsonnet_evaluator::stdlib::format::"

# Python / Jsonnet printf conversions: character -> (kind, upper-case output)
SPEC_CONV = {"d": ("Decimal", False), "i": ("Decimal", False), "u": ("Decimal", False), "o": ("Octal", False), "x": ("Hexadecimal", False),
             "X": ("Hexadecimal", True), "e": ("Scientific", False), "E": ("Scientific", True), "f": ("Float", False), "F": ("Float", True),
             "g": ("Shorter", False), "G": ("Shorter", True), "c": ("Char", False), "s": ("String", False), "%": ("Percent", False)}
SPEC_FLAGS = {"#": "alt", "0": "zero", "-": "left", " ": "blank", "+": "sign"}


def run(prog):
    obs = []
    # ---- conversion table
    h = prog.hir.get(F + "parse_conversion_type")
    f = prog.fn(F + "parse_conversion_type")
    if h is None:
        obs.append(bad(RULE, "conversions:anchor", "", "parse_conversion_type not found"))
    else:
        got = {}
        default_err = False
        for m in H.matches(h["body"]):
            for arm in m[2]:
                chars = []
                for x in H.walk(arm[0]):
                    if H.tag(x) == "lit" and x[1] == "byte":
                        chars.append(chr(x[2]))
                body = arm[2]
                if chars and H.tag(body) == "tup" and len(body[1]) == 2:
                    kind = H.def_path(body[1][0])
                    caps = H.lit_value(body[1][1])
                    for c in chars:
                        got[c] = (kind.rsplit("::", 1)[1] if kind else None, caps)
                elif not chars and any(True for _ in H.nodes(body, "ret")):
                    if any((H.def_path(x) or "").endswith("UnrecognizedConversionType") for x in H.walk(body) if H.tag(x) == "path"):
                        default_err = True
        if got == SPEC_CONV:
            obs.append(ok(RULE, "conversions:table", site(f), "15 conversion characters map to (kind, caps) as in Python %-formatting"))
        else:
            d = {k: (got.get(k), SPEC_CONV.get(k)) for k in set(got) | set(SPEC_CONV) if got.get(k) != SPEC_CONV.get(k)}
            obs.append(bad(RULE, "conversions:table", site(f), "conversion table differs from the specification: %s (got, expected)" % d))
        obs.append(ok(RULE, "conversions:unknown", site(f), "any other character is UnrecognizedConversionType") if default_err else
                   bad(RULE, "conversions:unknown", site(f), "an unknown conversion character is not rejected with UnrecognizedConversionType"))
    # ---- flag table
    h = prog.hir.get(F + "try_parse_cflags")
    f = prog.fn(F + "try_parse_cflags")
    if h is None:
        obs.append(bad(RULE, "flags:anchor", "", "try_parse_cflags not found"))
    else:
        got = {}
        for m in H.matches(h["body"]):
            for arm in m[2]:
                chars = [chr(x[2]) for x in H.walk(arm[0]) if H.tag(x) == "lit" and x[1] == "byte"]
                for a in H.nodes(arm[2], "assign"):
                    if H.tag(a[1]) == "field" and H.lit_value(a[2]) is True:
                        for c in chars:
                            got[c] = a[1][2]
        # a flag field that was renamed (the reference name no longer exists in the flags struct) is accepted under its new name as long
        # as the five characters still set five different fields
        fields = set()
        for unit, a in prog.adts():
            if a["path"].endswith("format::CFlags"):
                fields = {fl["name"] for v in a["variants"] for fl in v["fields"]}
        same = set(got) == set(SPEC_FLAGS) and len(set(got.values())) == len(got) and all(
            got[c] == SPEC_FLAGS[c] or (fields and SPEC_FLAGS[c] not in fields and got[c] not in SPEC_FLAGS.values()) for c in got)
        obs.append(ok(RULE, "flags:table", site(f), "# 0 - space + set alt zero left blank sign") if same else
                   bad(RULE, "flags:table", site(f), "flag table differs from the specification: got %s, expected %s" % (got, SPEC_FLAGS)))
    # ---- %g threshold
    h = prog.hir.get(F + "format_code")
    f = prog.fn(F + "format_code")
    key = "format_code:g-threshold"
    good = False
    if h:
        for n in H.nodes(h["body"], "if"):
            c = n[1]
            if H.tag(c) == "binary" and c[1] == "||":
                l, r = c[2], c[3]
                # the same local on both sides (called `exponent` today)
                lok = H.tag(l) == "binary" and l[1] == "<" and H.local_name(l[2]) and str(H.lit_value(l[3])) in ("-4.0", "-4", "-4.")
                rok = H.tag(r) == "binary" and r[1] == ">=" and H.local_name(r[2]) and H.local_name(r[2]) == H.local_name(l[2])
                if lok and rok:
                    sci = any(True for _ in H.calls(n[2], path=F + "render_float_sci"))
                    fl = n[3] is not None and any(True for _ in H.calls(n[3], path=F + "render_float"))
                    if sci and fl:
                        good = True
    obs.append(ok(RULE, key, site(f), "%g uses the exponent form iff exponent < -4 or exponent >= precision") if good else
               bad(RULE, key, site(f) if f else "", "%g does not switch to the exponent form exactly when exponent < -4 || exponent >= precision"))
    # ---- sign column of integer rendering
    h = prog.hir.get(F + "render_integer")
    f = prog.fn(F + "render_integer")
    key = "render_integer:sign-column"
    good = False
    if h:
        # the width of the sign column is `if neg || blank || sign { 1 } else { 0 }` (written inline or bound to a local first), and it is
        # taken off the padding (saturating_sub, or a guarded `-` whose guard R-ARITH checks)
        # parameters by position of the public signature render_integer(out, neg, iv, padding, precision, blank, sign, ..): their names may change
        an = list(f.arg_names) if f is not None else []
        SIGN_FLAGS = {an[1], an[5], an[6]} if len(an) > 6 else {"neg", "blank", "sign"}
        PADDING = an[3] if len(an) > 3 else "padding"

        def sign_width(e):
            e = H.strip_try(e)
            if H.tag(e) != "if":
                return False
            cond = e[1]
            names = {x[1][1] for x in H.walk(cond) if H.tag(x) == "path" and x[1][0] == "local"}
            ors = all(x[1] == "||" for x in H.nodes(cond, "binary"))
            vals = [x[2] for x in H.walk(e[2]) if H.tag(x) == "lit"] + [x[2] for x in H.walk(e[3]) if H.tag(x) == "lit"] if len(e) > 3 and e[3] is not None else []
            return names == SIGN_FLAGS and ors and vals == [1, 0]
        bound = {l[1][1] for l in H.nodes(h["body"], "let") if H.tag(l[1]) == "bind" and l[2] is not None and sign_width(l[2])}
        is_w = lambda e: sign_width(e) or H.local_name(e) in bound
        for c in H.calls(h["body"], suffix="::saturating_sub"):
            args = H.call_args(c)
            if len(args) == 2 and H.local_name(args[0]) == PADDING and is_w(args[1]):
                good = True
        for b2 in H.nodes(h["body"], "binary"):
            if b2[1] == "-" and H.local_name(b2[2]) == PADDING and is_w(b2[3]):
                good = True
    obs.append(ok(RULE, key, site(f), "one column is reserved when a sign character is printed: neg || blank || sign") if good else
               bad(RULE, key, site(f) if f else "", "zero padding does not reserve the sign column for exactly neg || blank || sign"))
    # ---- value accounting in format_arr
    obs.extend(check_format_arr(prog))
    obs.extend(check_render_table(prog))
    # ---- all front ends reach the same formatter
    key = "front-ends"
    want = {"jrsonnet_evaluator::stdlib::std_format": (F + "format_arr", F + "format_obj")}
    g = prog.fn("jrsonnet_evaluator::stdlib::std_format")
    if g is not None:
        cs = set()
        for host in [g] + [c for c in prog.fns.values() if c.kind == "Closure" and c.root == g.path]:
            for b, t in host.calls():
                cs.add(t.get("res") or t.get("fn") or "")
        good = {F + "format_arr", F + "format_obj"} <= cs
        users = sorted({short_path(cf.path) for cf, b, t in prog.callers.get("jrsonnet_evaluator::stdlib::std_format", [])})
        obs.append(ok(RULE, key, site(g), "std_format dispatches to format_arr/format_obj; used by %s" % users) if good else
                   bad(RULE, key, site(g), "std_format no longer dispatches to format_arr and format_obj"))
    floors = [Floor(RULE, "obligations", len(obs), 8)]
    return obs, floors, {}


RENDER_TABLE = {
    # renderer: (radix, prefix counted inside the zero padding / precision)   -- as in the reference std.jsonnet / C printf:
    # `%#.4o` of 8 is 0010 (the `0` prefix is one of the digits), `%#.4x` of 255 is 0x00ff (the prefix is extra)
    "render_decimal": (10, False),
    "render_octal": (8, True),
    "render_hexadecimal": (16, False),
}


def check_render_table(prog):
    obs = []
    for name, (radix, pip) in RENDER_TABLE.items():
        g = prog.fn(F + name)
        key = "render-table:%s" % name
        if g is None:
            obs.append(bad(RULE, key, "", "%s not found" % name))
            continue
        calls = [(b, t) for b, t in g.calls() if (t.get("res") or t.get("fn")) == F + "render_integer" and not g.is_cleanup(b)]
        if len(calls) != 1 or len(calls[0][1]["args"]) < 11:
            obs.append(bad(RULE, key, site(g), "expected one call of render_integer with 11 arguments"))
            continue
        a = calls[0][1]["args"]
        r = strip(g.desc_op(a[7]))
        p_ = strip(g.desc_op(a[9]))
        problems = []
        if r[:2] != ("const", radix):
            problems.append("radix %s (expected %d)" % (show(r), radix))
        if p_[0] != "const" or bool(p_[1]) != pip:
            problems.append("prefix_in_padding %s (expected %s)" % (show(p_), str(pip).lower()))
        obs.append(bad(RULE, key, site(g), "%s calls render_integer with %s: `#` combined with a precision or zero padding renders differently from "
                       "Python-style formatting" % (name, "; ".join(problems))) if problems else
                   ok(RULE, key, site(g), "radix %d, prefix %s the padding" % (radix, "inside" if pip else "outside")))
    return obs


def value_takers(prog):
    """local helpers of format.rs that take the next positional value: they construct NotEnoughValues on the true edge of
    is_empty() of their slice parameter and re-slice it from 1"""
    out = set()
    for p, g in prog.fns.items():
        if not g.file.endswith("stdlib/format.rs") or g.kind == "Closure" or p == F + "format_arr":
            continue
        has_nev = False
        for b in g.live_blocks:
            for s in g.stmts(b):
                if s[0] == "a" and s[2][0] == "agg" and s[2][3] == "NotEnoughValues":
                    if any(strip(x[2][0])[0] == "call" and strip(x[2][0])[1].endswith("::is_empty") and x[2][1] is True for x in g.facts_at(b)):
                        has_nev = True
        reslice = any("RangeFrom" in " ".join(str(a) for a in (t.get("argtys") or [])) or "RangeFrom" in str(t.get("gargs")) for b, t in g.calls()
                      if (t.get("fn") or "").endswith("Index::index") or "index" in (t.get("fn") or ""))
        if has_nev and reslice:
            out.add(p)
    return out


def consumes_value(node, takers):
    for x in H.walk(node):
        if H.tag(x) == "index":
            return True
        if H.tag(x) == "call" and (H.def_path(x[1]) or "") in takers:
            return True
    return False


def check_format_arr(prog):
    obs = []
    f = prog.fn(F + "format_arr")
    if f is None:
        return [bad(RULE, "format_arr:anchor", "", "format_arr not found")]
    st = site(f)
    # every `values[0]` consumption is dominated by !values.is_empty(); R-INDEX already decides the index.  Here:
    # (a) three consumption points (width *, precision *, value) each bail with NotEnoughValues
    nev = 0
    for b in f.live_blocks:
        for s in f.stmts(b):
            if s[0] == "a" and s[2][0] == "agg" and s[2][3] == "NotEnoughValues":
                nev += 1
    # a consumption point may be a call of a local helper that is handed `&mut values`: it counts if the helper itself reports
    # NotEnoughValues on the is_empty edge
    takers = value_takers(prog)
    for b, t in f.calls():
        if (t.get("res") or t.get("fn")) in takers and b in f.live_blocks and not f.is_cleanup(b):
            nev += 1
    obs.append(ok(RULE, "format_arr:not-enough", st, "3 consumption points (* width, * precision, value) report NotEnoughValues") if nev >= 3 else
               bad(RULE, "format_arr:not-enough", st, "only %d of the 3 value-consumption points report NotEnoughValues on an exhausted value list" % nev))
    # (b) every successful return is dominated by the final `values.is_empty()` test
    oks = []
    for b in sorted(f.live_blocks):
        if f.is_cleanup(b):
            continue
        for s in f.stmts(b):
            if s[0] == "a" and s[1] == [0] and s[2][0] == "agg" and s[2][3] == "Ok":
                oks.append(b)
    problems = []
    if not oks:
        problems.append("no Ok(..) return found")
    for b in oks:
        dominated = False
        for u, v, (d, val) in f.facts_at(b):
            sd = strip(d)
            if sd[0] == "call" and sd[1].endswith("::is_empty") and val is True:
                dominated = True
            if sd[0] == "un" and sd[1] == "Not" and sd[2][0] == "call" and sd[2][1].endswith("::is_empty") and val is False:
                dominated = True
        if not dominated:
            problems.append("a successful return is not dominated by the `values.is_empty()` test: surplus values would be silently ignored")
    obs.append(bad(RULE, "format_arr:too-many", st, "; ".join(sorted(set(problems)))) if problems else
               ok(RULE, "format_arr:too-many", st, "every successful return follows the surplus-values test"))
    # (c) consumption order: width, then precision, then value  (HIR statement order inside the Code arm)
    h = prog.hir.get(F + "format_arr")
    key = "format_arr:order"
    order = []
    if h:
        for n in H.nodes(h["body"], "let"):
            bs = [b[0] for b in H.pat_binds(n[1])]
            if bs and bs[0] in ("width", "precision", "value") and n[2] is not None and H.tag(H.strip_try(n[2])) in ("match", "if") \
                    and consumes_value(n[2], takers):
                if bs[0] not in order:
                    order.append(bs[0])
    obs.append(ok(RULE, key, st, "values are consumed for width, then precision, then the conversion") if order == ["width", "precision", "value"] else
               bad(RULE, key, st, "values are consumed in the order %s (expected width, precision, value)" % order))
    # (d) %% consumes nothing
    key = "format_arr:percent"
    good = False
    if h:
        for n in H.nodes(h["body"], "if"):
            c = n[1]
            if H.tag(c) == "binary" and c[1] == "==" and any((H.def_path(x) or "").endswith("ConvTypeV::Percent") for x in H.walk(c) if H.tag(x) == "path"):
                if not consumes_value(n[2], takers):
                    good = True
    obs.append(ok(RULE, key, st, "%% does not consume a value") if good else bad(RULE, key, st, "the %% conversion consumes a value"))
    return obs
