"""R-FMTTABLES (C14): character classes, reserved-word lists and entity maps of the YAML/TOML/XML/Python writers are
within what the target grammar allows; out-of-domain values are rejected before anything is written."""
from .. import hir as H
from ..mir import strip, show, short_path, contains, string_writes, string_write_kind, const_text
from ..report import ok, bad, info, site, Floor

RULE = "R-FMTTABLES"
M = "jrsonnet_stdlib::manifest::"

TOML_BARE = set(b"ABCDEFGHIJKLMNOPQRSTUVWXYZabcdefghijklmnopqrstuvwxyz0123456789_-")      # TOML 1.0: bare keys A-Za-z0-9_-
YAML_PLAIN_SAFE = set(b"ABCDEFGHIJKLMNOPQRSTUVWXYZabcdefghijklmnopqrstuvwxyz0123456789_-./")
# YAML 1.1 core schema words that a plain scalar would be resolved to (bool / null / float specials), lower-cased
YAML_RESERVED = {"true", "false", "yes", "no", "on", "off", "y", "n", "null", ".nan", ".inf", "-.inf", "+.inf", ""}
XML_ENTITIES = {"<": "&lt;", ">": "&gt;", "&": "&amp;", '"': "&quot;", "'": "&apos;"}


def char_class(pat):
    """set of byte / char codes accepted by a (possibly or-/range-) literal pattern"""
    out = set()
    t = H.tag(pat)
    if t == "or":
        for x in pat[1]:
            out |= char_class(x)
    elif t == "lit" and pat[1] in ("byte", "char"):
        out.add(pat[2] if isinstance(pat[2], int) else ord(pat[2]))
    elif t == "range":
        lo, hi = pat[1], pat[2]
        a = lo[2] if isinstance(lo[2], int) else ord(lo[2])
        b = hi[2] if isinstance(hi[2], int) else ord(hi[2])
        out |= set(range(a, b + (1 if pat[3] else 0)))
    elif t == "ref":
        out |= char_class(pat[1])
    return out


def first_matches_class(body):
    """accepted class of the first `matches!(c, <literals>)` in a body (match with a true arm and a false default)"""
    for m in H.nodes(body, "match"):
        arms = m[2]
        if len(arms) == 2 and H.lit_value(arms[0][2]) is True and H.lit_value(arms[1][2]) is False:
            cls = char_class(arms[0][0])
            if cls:
                return cls
    return None


def closures_of(prog, path):
    out = []
    h = prog.hir.get(path)
    if h:
        out.append(h["body"])
    for p2, h2 in prog.hir.items():
        if p2.startswith(path + "::"):
            out.append(h2["body"])
    return out


def family(prog, root, depth=2):
    """root function, the functions and closures nested in it, and the local (same file) functions they call, to `depth`"""
    g = prog.fn(root)
    if g is None:
        return []
    out = [root]
    frontier = [root]
    for _ in range(depth + 1):
        nxt = []
        for p in frontier:
            for q, h in prog.fns.items():
                if q.startswith(p + "::") and q not in out:
                    out.append(q)
                    nxt.append(q)
            h = prog.fn(p)
            if h is None:
                continue
            for b, t in h.calls():
                c = t.get("res") or t.get("fn") or ""
                cf = prog.fn(c)
                if cf is not None and cf.file == g.file and c not in out:
                    out.append(c)
                    nxt.append(c)
        frontier = nxt
    return out


def family_bodies(prog, root):
    out = []
    for p in family(prog, root):
        h = prog.hir.get(p)
        if h:
            out.append(h["body"])
    return out


def all_classes(bodies):
    """character classes of the closures handed to Iterator::all in these bodies, in source order"""
    out = []
    for body in bodies:
        for c in H.nodes(body, "mcall"):
            if str(c[1]).endswith("Iterator::all"):
                for a in c[3]:
                    if H.tag(a) == "closure":
                        cls = first_matches_class(a[3])
                        if cls:
                            out.append(cls)
    if not out:
        # the same test spelled as a loop with an early return: `for c in s.bytes() { if !matches!(c, ..) { return false } }`
        for body in bodies:
            for lp in H.nodes(body, "loop"):
                cls = first_matches_class(lp)
                if cls:
                    out.append(cls)
    return out


def run(prog):
    obs = []
    # ---- TOML bare keys: the predicate under which escape_key_toml_buf writes the key raw (wherever it is spelled: a helper such as
    # bare_allowed, or inline)
    W = M + "toml::escape_key_toml_buf"
    g = prog.fn(W)
    bodies = family_bodies(prog, W)
    key = "toml:bare-key-class"
    classes = all_classes(bodies)
    if not classes:
        obs.append(bad(RULE, key, site(g) if g else "", "no character class (`.all(|c| matches!(c, ..))`) found in the bare-key test of escape_key_toml_buf"))
    else:
        cls = classes[0]
        extra = sorted(chr(c) for c in cls - TOML_BARE)
        obs.append(ok(RULE, key, site(g), "bare keys use %d characters, all within A-Za-z0-9_-" % len(cls)) if not extra else
                   bad(RULE, key, site(g), "the bare-key test accepts %s, which TOML does not allow in a bare key" % extra))
    key = "toml:bare-key-nonempty"
    nonempty = any(True for body in bodies for _ in H.calls(body, suffix="::is_empty"))
    obs.append(ok(RULE, key, site(g), "an empty key is not bare") if nonempty else
               bad(RULE, key, site(g) if g else "", 'the bare-key test accepts the empty string: `std.manifestToml({"": 1})` would emit ` = 1`'))
    key = "toml:quoted-key-escaper"
    cs = [(t.get("res") or t.get("fn") or "") for b, t in g.calls()] if g else []
    obs.append(ok(RULE, key, site(g), "non-bare keys go through a string escaper (its coverage is checked under quoted:*)") if any("escape_string" in c for c in cs) else
               bad(RULE, key, site(g) if g else "", "non-bare TOML keys are not escaped"))
    # ---- YAML plain scalars
    p = M + "yaml::bare_safe"
    f = prog.fn(p)
    bodies = family_bodies(prog, p)
    key = "yaml:plain-class"
    classes = all_classes(bodies)
    if not classes:
        obs.append(bad(RULE, key, site(f) if f else "", "character class of bare_safe not found"))
    else:
        cls = max(classes, key=len)          # the safety class is the widest one; the others recognise number / date look-alikes
        extra = sorted(chr(c) for c in cls - YAML_PLAIN_SAFE)
        obs.append(ok(RULE, key, site(f), "plain scalars use %d characters, none of them a YAML indicator" % len(cls)) if not extra else
                   bad(RULE, key, site(f), "bare_safe accepts %s: YAML indicator characters in a plain scalar change the parse" % extra))
    # reserved list and case-insensitive comparison (in bare_safe itself or a helper of it)
    key = "yaml:reserved-words"
    words = set()
    for body in bodies:
        for x in H.walk(body):
            if H.tag(x) == "path" and H.tag(x[1]) == "def" and str(x[1][1]).startswith("Const"):
                hc = prog.hir.get(x[1][2])
                if hc:
                    ws = {y[2] for y in H.walk(hc["body"]) if H.tag(y) == "lit" and y[1] == "str"}
                    if len(ws) > len(words):
                        words = ws
    missing = sorted(w for w in YAML_RESERVED if w not in words)
    ci = any(True for body in bodies for _ in H.calls(body, suffix="::eq_ignore_ascii_case"))
    if f is None:
        obs.append(bad(RULE, key, "", "bare_safe not found"))
    else:
        probs = []
        if missing:
            probs.append("missing %s" % missing)
        if not ci:
            probs.append("the comparison is case-sensitive (YAML resolves Yes / TRUE / Null as well)")
        obs.append(bad(RULE, key, site(f), "YAML reserved-word test: " + "; ".join(probs)) if probs else
                   ok(RULE, key, site(f), "bool/null/float words are compared case-insensitively (%d words)" % len(words)))
    # ---- XML entities
    p = M + "xml::escape_string_xml_buf"
    f = prog.fn(p)
    key = "xml:entities"
    got = {}
    search = None
    for body in closures_of(prog, p):
        for m in H.nodes(body, "match"):
            for arm in m[2]:
                chars = [chr(c) for c in char_class(arm[0])]
                v = H.lit_value(arm[2])
                if chars and isinstance(v, str) and v.startswith("&"):
                    for c in chars:
                        got[c] = v
        c = first_matches_class(body)
        if c:
            search = {chr(x) for x in c}
    if got == XML_ENTITIES and search == set(XML_ENTITIES):
        obs.append(ok(RULE, key, site(f), "the five XML special characters are searched for and replaced by their predefined entities"))
    else:
        obs.append(bad(RULE, key, site(f) if f else "", "XML escaping differs from the predefined entities: map %s, searched characters %s" % (got, sorted(search or []))))
    # ---- functions (and TOML null) are rejected before anything is written
    writers = [
        (M + "yaml::manifest_yaml_ex_buf", ("Func",)),
        (M + "toml::manifest_value", ("Func", "Null")),
        ("<jrsonnet_stdlib::manifest::python::PythonFormat as jrsonnet_evaluator::manifest::ManifestFormat>::manifest_buf", ("Func",)),
    ]
    for path, rejected in writers:
        g = prog.fn(path)
        for var in rejected:
            key = "%s:rejects-%s" % (short_path(path), var)
            if g is None:
                obs.append(bad(RULE, key, "", "%s not found" % path))
                continue
            obs.append(check_reject(g, var, key))
    # ---- YAML stream framing
    g = prog.fn("<jrsonnet_evaluator::manifest::YamlStreamFormat<I> as jrsonnet_evaluator::manifest::ManifestFormat>::manifest_buf")
    key = "yaml-stream:document-marker"
    if g is None:
        obs.append(bad(RULE, key, "", "YamlStreamFormat::manifest_buf not found"))
    else:
        marks = [b for b, t, kind, dst, d in string_writes(g) if const_text(d) == "---\n"]
        inner = [b for b, t in g.calls() if (t.get("fn") or "").endswith("ManifestFormat::manifest_buf") or (t.get("fn") or "").endswith("in_description_frame")]
        good = bool(marks) and bool(inner) and all(any(g.block_dominates(m, i) for m in marks) for i in inner)
        obs.append(ok(RULE, key, site(g), "`---` is written before every document of the stream") if good else
                   bad(RULE, key, site(g), "a document of the YAML stream can be written without its `---` marker"))
    floors = [Floor(RULE, "obligations", len(obs), 10)]
    return obs, floors, {}


def check_reject(g, var, key):
    for b in sorted(g.live_blocks):
        t = g.term(b)
        if isinstance(t, list) and t[0] == "switch" and len(t) > 5 and t[5] == "jrsonnet_evaluator::val::Val":
            targets = {nm: bb for v, bb, nm in t[2]}
            fb = targets.get(var)
            if fb is None:
                rest = [x for x in t[6] if x not in targets]
                if rest == [var]:
                    fb = t[3]
            if fb is None:
                continue
            reach = {fb} | g.reach_from(fb)
            writes = []
            for r in reach:
                tt = g.term(r)
                if isinstance(tt, dict) and tt["k"] == "call" and not g.is_cleanup(r):
                    c = tt.get("res") or tt.get("fn") or ""
                    if string_write_kind(tt) or "escape_string" in c:
                        writes.append(short_path(c))
            if writes:
                return bad(RULE, key, site(g), "the Val::%s arm writes output (%s) instead of failing: %s is outside the format's domain" % (var, sorted(set(writes)), var.lower()))
            return ok(RULE, key, site(g), "Val::%s reaches return without writing (error)" % var)
    return bad(RULE, key, site(g), "no switch on Val with a %s edge found" % var)


# ---------------------------------------------------------------------------------------------------------------
# raw user text, indentation pairing and table headers

USER_SOURCES = ("StrValue::into_flat", "::split", "Split<", "ObjValue::iter", "ObjValue::fields", "::strip_suffix", "IStr")


def _prune_scalars(d):
    """a descriptor without the payloads of the number / boolean variants of Val (their Display form is not user text)"""
    if not isinstance(d, tuple):
        return d
    if d and d[0] == "as" and d[-1] in ("Num", "Bool", "BigInt"):
        return ("scalar",)
    return tuple(_prune_scalars(x) for x in d)


def _is_user_text(d, value_params):
    if d[0] == "const":
        return False
    d = _prune_scalars(d)
    return contains(d, lambda x: (x[0] == "param" and x[1] in value_params) or
                    (x[0] == "call" and any(s in str(x[1]) for s in USER_SOURCES)))


def _pushes(g):
    """appends to a String in any spelling (push_str, push, `+=`, write_str, write_char, write!, extend); the third element is
    "..::push" for a single char and "..::push_str" for text"""
    for b, t, kind, dst, d in string_writes(g):
        yield b, t, ("alloc::string::String::push" if kind == "char" else "alloc::string::String::push_str"), dst, d


VALUE_TYPES = ("::Val", "ObjValue", "ArrValue", "IStr")


def _value_params(g, extra_types=()):
    """parameters that carry user data, by type (positions and names of a private function's parameters are free to change)"""
    return {i for i in range(1, g.arg_count + 1) if any(t in str(g.locals[i]) for t in VALUE_TYPES) or str(g.locals[i]) in extra_types}


def run_text(prog):
    """every write of user text that bypasses the escaper is guarded by the format's `safe as a bare word` predicate"""
    obs = []
    n_raw = 0
    roots = [
        # function, extra value-carrying parameter types, guard predicate, block-scalar exemption
        (M + "yaml::manifest_yaml_ex_buf", (), M + "yaml::bare_safe", True),
        (M + "toml::escape_key_toml_buf", ("&str",), M + "toml::bare_allowed", False),
        (M + "toml::manifest_value", (), M + "toml::bare_allowed", False),
        (M + "toml::manifest_table_internal", (), M + "toml::bare_allowed", False),
        (M + "toml::manifest_table", (), M + "toml::bare_allowed", False),
        (M + "toml::manifest_table_array", (), M + "toml::bare_allowed", False),
    ]
    # work list: (function, value params, guard, block exemption allowed, every caller already inside a block scalar); helpers of the
    # same file that receive user text are analysed with the receiving parameters marked
    work = []
    state = {}
    for path, xt, guard, block_ok in roots:
        g = prog.fn(path)
        if g is None:
            obs.append(bad(RULE, "raw-text:%s" % short_path(path), "", "%s not found" % path))
            continue
        state[path] = [set(_value_params(g, xt)), guard, block_ok, False]
        work.append(path)
    order = []
    while work:
        path = work.pop(0)
        if path in order:
            order.remove(path)
        order.append(path)
        g = prog.fn(path)
        vparams, guard, block_ok, all_in_block = state[path]
        block_marks = [b for b, t, fn, dst, d in _pushes(g) if const_text(d) in ("|", "|-")]
        for b, t in g.calls():
            c = t.get("res") or t.get("fn") or ""
            cf = prog.fn(c)
            if cf is None or g.is_cleanup(b) or cf.file != g.file or c == guard or "escape_string" in c or "::{closure" in c:
                continue
            marked = {j + 1 for j, a in enumerate(t["args"]) if j < cf.arg_count and str(cf.locals[j + 1]) in ("&str", "&alloc::string::String", "alloc::string::String")
                      and _is_user_text(strip(g.desc_op(a)), vparams)}
            if not marked:
                continue
            inb = all_in_block or (block_ok and any(g.block_dominates(m, b) for m in block_marks))
            if c in state:
                st = state[c]
                changed = not marked <= st[0] or (st[3] and not inb)
                st[0] |= marked
                st[3] = st[3] and inb
                if changed and c not in [r[0] for r in roots]:
                    work.append(c)
            else:
                state[c] = [set(_value_params(cf)) | marked, guard, block_ok, inb]
                work.append(c)
    # a helper's writes count once per call site that hands it user text (merging two copies of a loop into one helper does not
    # lower the number of confirmed instances)
    rootset = {r[0] for r in roots}
    ncalls = {}
    for path in order:
        g = prog.fn(path)
        for b, t in g.calls():
            c = t.get("res") or t.get("fn") or ""
            if c in state and c not in rootset and not g.is_cleanup(b) and \
                    any(_is_user_text(strip(g.desc_op(a)), state[path][0]) for j, a in enumerate(t["args"]) if j + 1 in state[c][0]):
                ncalls[c] = ncalls.get(c, 0) + 1
    for path in order:
        g = prog.fn(path)
        vparams, guard, block_ok, all_in_block = state[path]
        block_marks = [b for b, t, fn, dst, d in _pushes(g) if const_text(d) in ("|", "|-")]
        k = 0
        for b, t, fn, dst, d in _pushes(g):
            if fn.endswith("::push") or not _is_user_text(d, vparams):
                continue
            n_raw += max(1, ncalls.get(path, 1))
            k += 1
            key = "raw-text:%s#%d" % (short_path(path), k)
            guarded = guard is not None and any(f[2][1] is True and strip(f[2][0])[0] == "call" and
                                                (strip(f[2][0])[1] == guard or ("Iterator" in str(strip(f[2][0])[1]) and str(strip(f[2][0])[1]).endswith("::all"))) for f in g.facts_at(b))
            in_block = all_in_block or (block_ok and any(g.block_dominates(m, b) for m in block_marks))
            if guarded:
                obs.append(ok(RULE, key, site(g, t["line"]), "unescaped text `%s` is written only where the bare-word test (%s or its inlined class test) holds" % (show(d)[:60], short_path(guard))))
            elif in_block:
                obs.append(ok(RULE, key, site(g, t["line"]), "line of a block scalar (after the `|` indicator)"))
            else:
                obs.append(bad(RULE, key, site(g, t["line"]), "user text `%s` is written to the output without escaping and without the bare-word test" % show(d)[:80]))
    # TOML table headers: every walk over the components of the table path hands each component to escape_key_toml_buf
    for path in (M + "toml::manifest_table", M + "toml::manifest_table_array"):
        g = prog.fn(path)
        key = "toml:header-keys:%s" % short_path(path)
        if g is None:
            obs.append(bad(RULE, key, "", "%s not found" % path))
            continue
        pp = g.param(ty="IStr")
        on_path = lambda d, pp=pp: contains(d, lambda x: x[0] == "param" and x[1] == pp)
        walks = [b for b, t in g.calls() if not g.is_cleanup(b) and (t.get("fn") or "").endswith(("<impl [T]>::iter", "IntoIterator::into_iter"))
                 and t["args"] and on_path(strip(g.desc_op(t["args"][0]))) and "Enumerate" not in str((t.get("argtys") or [""])[0])]
        escs = [b for b, t in g.calls() if not g.is_cleanup(b) and (t.get("res") or t.get("fn") or "").endswith("escape_key_toml_buf")
                and any(on_path(strip(g.desc_op(a))) for a in t["args"])]
        if walks and len(escs) >= 1 and all(any(e in g.reach_from(w) for e in escs) for w in walks):
            obs.append(ok(RULE, key, site(g), "the path components are written through escape_key_toml_buf"))
        else:
            obs.append(bad(RULE, key, site(g), "the `[..]` header is built from the table path without escape_key_toml_buf: a key such as `x.y`, `p q` or the "
                           "empty key produces a different or malformed table name"))
    floors = [Floor(RULE, "raw user-text writes", n_raw, 5)]
    return obs, floors, {}


def run_indent(prog):
    """YAML: the indentation written in front of the first line of a nested collection is the one the recursion uses for
    the following lines (both are taken from the same option field)"""
    obs = []
    g = prog.fn(M + "yaml::manifest_yaml_ex_buf")
    n = 0
    if g is None:
        return [bad(RULE, "yaml:indent-pairing", "", "manifest_yaml_ex_buf not found")], [], {}
    sw = None
    for b in sorted(g.live_blocks):
        t = g.term(b)
        if isinstance(t, list) and t[0] == "switch" and len(t) > 5 and t[5] == "jrsonnet_evaluator::val::Val" and strip(g.desc_op(t[1]))[:2] == ("discr", ("param", 1)):
            sw = (b, t)
            break
    if sw is None:
        for b in sorted(g.live_blocks):
            t = g.term(b)
            if isinstance(t, list) and t[0] == "switch" and len(t) > 5 and t[5] == "jrsonnet_evaluator::val::Val":
                sw = (b, t)
                break
    if sw is None:
        return [bad(RULE, "yaml:indent-pairing", site(g), "switch on the value not found")], [], {}
    b0, t0 = sw
    arms = {nm: bb for v, bb, nm in t0[2]}
    for var in ("Arr", "Obj"):
        key = "yaml:indent-pairing:%s" % var
        if var not in arms:
            obs.append(bad(RULE, key, site(g), "no %s edge" % var))
            continue
        reach = {arms[var]} | g.reach_from(arms[var], removed_blocks=(b0,))
        to_buf, to_pad = set(), set()
        for b, t, fn, dst, d in _pushes(g):
            if b not in reach or not fn.endswith("push_str"):
                continue
            if d[0] == "field" and d[1][0] == "param" and d[1][1] == 4:
                (to_buf if dst[0] == "param" and dst[1] == 2 else to_pad if dst[0] == "param" and dst[1] == 3 else set()).add(d[2])
        n += len(to_buf) + len(to_pad)
        if to_buf == to_pad and to_buf:
            obs.append(ok(RULE, key, site(g), "first-line indent and continuation indent both use option field(s) %s" % sorted(to_buf)))
        else:
            obs.append(bad(RULE, key, site(g), "in the %s arm the first line of a nested collection is indented with %s but the recursion continues with %s: "
                           "the items of one block collection end up in different columns" % (var, sorted(to_buf), sorted(to_pad))))
    return obs, [Floor(RULE, "indent pushes", n, 6)], {}


def run_toml_header(prog):
    """TOML: a table's `[header]` may be left out only if the table is known to be non-empty (otherwise the table vanishes)"""
    obs = []
    for path, mark in ((M + "toml::manifest_table", "["),):
        g = prog.fn(path)
        key = "toml:header:%s" % short_path(path)
        if g is None:
            obs.append(bad(RULE, key, "", "%s not found" % path))
            continue
        headers = {b for b, t, fn, dst, d in _pushes(g) if const_text(d) == mark}
        if not headers:
            obs.append(bad(RULE, key, site(g), "no `[` header write found"))
            continue
        # blocks that produce a success value (`_0 = Ok(..)`) and can be reached from the entry without passing a header write:
        # at each of them `obj.is_empty() == false` has to be a known fact (however the skip condition is spelled or staged)
        errs = {b for b, t in g.calls() if "FromResidual" in (t.get("fn") or "")}
        seen = {0}
        st = [0]
        while st:
            b = st.pop()
            for s2 in g.succs[b]:
                if s2 in seen or s2 in headers or s2 in errs or g.is_cleanup(s2):
                    continue
                seen.add(s2)
                st.append(s2)
        offenders = []
        for b in sorted(seen):
            if not any(x[0] == "a" and x[1] == [0] and x[2][0] == "agg" and str(x[2][3]) == "Ok" for x in g.stmts(b)):
                continue
            nonempty = any(strip(f[2][0])[0] == "call" and str(strip(f[2][0])[1]).endswith("ObjValue::is_empty") and f[2][1] is False for f in g.facts_at(b))
            if not nonempty:
                offenders.append(b)
        if offenders:
            obs.append(bad(RULE, key, site(g), "a success return is reachable without writing the `[..]` header and without knowing that the table is "
                           "non-empty: an empty table is dropped from the output"))
        else:
            obs.append(ok(RULE, key, site(g), "every success path writes the header or has checked `!obj.is_empty()`"))
    return obs, [], {}


NAMES_BY_DESIGN = [
    # function, what, why a raw write is the format's own limit (the reference implementation does the same)
    (M + "xml::manifest_jsonml", "XML tag and attribute names", "XML names cannot be escaped; JSONML puts them under the caller's control"),
    ("<jrsonnet_stdlib::manifest::python::PythonVarsFormat as jrsonnet_evaluator::manifest::ManifestFormat>::manifest_buf", "Python variable names",
     "a variable name has no quoting form"),
    (M + "ini::manifest_ini_body", "INI keys", "INI has no escaping"),
    (M + "ini::manifest_ini_obj", "INI section names", "INI has no escaping"),
]

MUST_ESCAPE = [
    ("<jrsonnet_stdlib::manifest::python::PythonFormat as jrsonnet_evaluator::manifest::ManifestFormat>::manifest_buf", 2, "Str", "escape_string_json_buf"),
    (M + "toml::manifest_value", "::Val", "Str", "escape_string_strict_buf"),        # private: the value parameter is found by type
    (M + "xml::manifest_jsonml", "JSONMLValue", "String", "escape_string_xml_buf"),
]


def run_escape(prog):
    obs = []
    n = 0
    for path, what, why in NAMES_BY_DESIGN:
        g = prog.fn(path)
        if g is None:
            obs.append(bad(RULE, "names:%s" % short_path(path), "", "%s not found" % path))
            continue
        k = 0
        for b, t, fn, dst, d in _pushes(g):
            if fn.endswith("push_str") and d[0] != "const":
                k += 1
                obs.append(info(RULE, "names:%s#%d" % (short_path(path), k), site(g, t["line"]), "%s are written as given: %s" % (what, why)))
    for path, param, var, esc in MUST_ESCAPE:
        g = prog.fn(path)
        key = "must-escape:%s:%s" % (short_path(path), var)
        if g is None:
            obs.append(bad(RULE, key, "", "%s not found" % path))
            continue
        if isinstance(param, str):
            param = g.param(ty=param)
        start = None
        for u, v, f in g._cond_edge_list():
            if strip(f[0])[:2] == ("discr", ("param", param)) and f[1] == ("variant", var) and start is None:
                start = v
        if start is None:
            obs.append(bad(RULE, key, site(g), "no %s edge on the value" % var))
            continue
        escs = {b for b, t in g.calls() if "escape_string" in (t.get("res") or t.get("fn") or "")}
        errs = {b for b, t in g.calls() if "FromResidual" in (t.get("fn") or "")}
        seen = g.reach_from(start, removed_blocks=tuple(escs | errs)) | ({start} if start not in escs else set())
        rets = [b for b in g.returns() if b in seen]
        raw = [t["line"] for b, t, fn, dst, d in _pushes(g) if b in seen and fn.endswith("push_str") and d[0] != "const" and contains(d, lambda x: x[0] == "as" and x[-1] == var)]
        n += 1
        if start in escs or (not rets and not raw):
            obs.append(ok(RULE, key, site(g), "every %s value passes through a string escaper before the function returns" % var))
        else:
            obs.append(bad(RULE, key, site(g), "a %s value can reach the return without passing through a string escaper (expected %s)" % (var, esc)))
    # XML attribute values: between the opening and the closing quote the escaper is called
    g = prog.fn(M + "xml::manifest_jsonml")
    key = "xml:attr-value-escaped"
    if g is not None:
        quotes = [b for b, t, fn, dst, d in _pushes(g) if '"' in (const_text(d) or "")]          # `"`, `="`, `" `: any constant write carrying the quote
        escs = {b for b, t in g.calls() if (t.get("res") or t.get("fn") or "").endswith("escape_string_xml_buf")}
        if len(quotes) != 2:
            obs.append(bad(RULE, key, site(g), "expected an opening and a closing quote write, found %d" % len(quotes)))
        else:
            a, c = (quotes if g.block_dominates(quotes[0], quotes[1]) else quotes[::-1])
            between = g.reach_from(a, removed_blocks=tuple(escs))
            errs_only = c not in between
            obs.append(ok(RULE, key, site(g), "the closing quote is reached only through escape_string_xml_buf") if errs_only else
                       bad(RULE, key, site(g), "an attribute value can reach the closing quote without escape_string_xml_buf"))
            n += 1
    return obs, [Floor(RULE, "escape obligations", n, 4)], {}


# ---------------------------------------------------------------------------------------------------------------
# the escaper used for quoted strings covers every character the target format does not accept raw

JSON_ESC = "jrsonnet_evaluator::manifest::escape_string_json_buf"
ASCII_CTL = set(range(0, 0x20))
REQUIRED = {
    # format: code points that must not appear raw inside its quoted string form
    "toml": (ASCII_CTL - {9}) | {0x7F, 0x22, 0x5C},                                     # TOML 1.0 basic strings
    "yaml": (ASCII_CTL - {9}) | set(range(0x7F, 0xA0)) | {0xFFFE, 0xFFFF, 0x22, 0x5C},      # YAML 1.2 nb-json / c-printable, double-quoted
}
QUOTED_WRITERS = [
    ("toml", M + "toml::escape_key_toml_buf"), ("toml", M + "toml::manifest_value"),
    ("yaml", M + "yaml::manifest_yaml_ex_buf"),
]


def escaper_cover(prog, path, seen=None):
    seen = seen or set()
    if path in seen:
        return set()
    seen.add(path)
    if path == JSON_ESC:
        for u, s in prog.statics():
            if s.get("path") == "jrsonnet_evaluator::manifest::ESCAPE" and isinstance(s.get("bytes"), list):
                return {i for i, v in enumerate(s["bytes"]) if v != 0 and i < 128}
        return set()
    out = set()
    # the escaper, what is nested in it, and the bool-valued predicates of the same file it calls (a `needs_escape` helper may be
    # nested or a module-level function)
    bodies = list(closures_of(prog, path))
    for q in family(prog, path, depth=1):
        qf = prog.fn(q)
        if q != path and not q.startswith(path + "::") and qf is not None and str(qf.locals[0]) == "bool" and q in prog.hir:
            bodies.append(prog.hir[q]["body"])
    for body in bodies:
        for m in H.nodes(body, "match"):
            for arm in m[2]:
                if H.lit_value(arm[2]) is True:
                    out |= char_class(arm[0])
    g = prog.fn(path)
    if g is not None:
        for b, t in g.calls():
            c = t.get("res") or t.get("fn") or ""
            if "escape_string" in c and c != path:
                out |= escaper_cover(prog, c, seen)
    return out


def run_strict(prog):
    obs = []
    n = 0
    for fmt, path in QUOTED_WRITERS:
        g = prog.fn(path)
        if g is None:
            obs.append(bad(RULE, "quoted:%s" % short_path(path), "", "%s not found" % path))
            continue
        escs = sorted({(t.get("res") or t.get("fn")) for b, t in g.calls() if "escape_string" in (t.get("res") or t.get("fn") or "")})
        if not escs:
            obs.append(bad(RULE, "quoted:%s" % short_path(path), site(g), "no string escaper is called"))
            continue
        for e in escs:
            n += 1
            key = "quoted:%s:%s" % (short_path(path), short_path(e))
            cover = escaper_cover(prog, e)
            missing = sorted(REQUIRED[fmt] - cover)
            if missing:
                obs.append(bad(RULE, key, site(g), "%s strings are written with %s, which leaves %s raw; the %s grammar does not accept them unescaped inside quotes"
                               % (fmt.upper(), short_path(e), ", ".join("U+%04X" % c for c in missing[:8]) + (" ..." if len(missing) > 8 else ""), fmt.upper())))
            else:
                obs.append(ok(RULE, key, site(g), "%s covers all %d code points %s forbids raw in a quoted string" % (short_path(e), len(REQUIRED[fmt]), fmt.upper())))
    return obs, [Floor(RULE, "quoted-string escapers", n, 3)], {}
