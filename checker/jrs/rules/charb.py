"""R-CHARB: a `str` is only cut at a character boundary.

`str::split_at`, range indexing of `str` / `String`, `String::truncate / insert / insert_str / drain / replace_range / split_off / remove`
panic when a byte offset falls inside a multi-byte character.  Every such site in hand-written product code must take its offsets from
a boundary producer of the *same* text, be guarded by `is_char_boundary`, or be a reviewed instance (tables/charb_reviewed.json)."""
import re

from ..mir import strip, show, short_path, contains
from ..report import ok, bad, info, site, Floor
from . import arith

RULE = "R-CHARB"
CUTTERS = ("core::str::<impl str>::split_at", "core::str::<impl str>::split_at_mut", "alloc::string::String::truncate",
           "alloc::string::String::insert_str", "alloc::string::String::insert", "alloc::string::String::replace_range",
           "alloc::string::String::drain", "alloc::string::String::split_off", "alloc::string::String::remove")
# calls whose result is a boundary of the text they were applied to
PRODUCERS = ("core::str::<impl str>::len", "alloc::string::String::len", "core::str::<impl str>::find", "core::str::<impl str>::rfind",
             "core::str::<impl str>::char_indices", "core::str::<impl str>::match_indices", "core::str::<impl str>::rmatch_indices",
             "core::char::methods::<impl char>::len_utf8", "core::str::<impl str>::floor_char_boundary", "core::str::<impl str>::ceil_char_boundary")


def boundary(d, depth=0):
    """is this offset descriptor a character boundary by construction"""
    d = strip(d)
    if depth > 6:
        return False
    if d[0] == "const":
        return d[1] == 0
    if d[0] == "call":
        c = str(d[1])
        if any(c.endswith(p.split("::", 2)[-1]) and ("str" in c or "String" in c or "char" in c) for p in PRODUCERS):
            return True
        if c.endswith("Option::<T>::unwrap_or") or c.endswith("::unwrap_or"):
            return all(boundary(a, depth + 1) for a in d[2])
        return False
    if d[0] in ("field", "as", "cast", "ref", "deref"):
        return boundary(d[1] if d[0] != "cast" else d[2], depth + 1)
    if d[0] == "bin" and d[1] in ("Add", "Sub"):
        # boundary + length of a str / char, or boundary +- the width of an ASCII needle that find() located
        a, b = d[2], d[3]
        if boundary(a, depth + 1) and boundary(b, depth + 1):
            return True
        if d[1] == "Add" and strip(b) == ("const", 1) and ascii_find(a):
            return True
        return False
    return False


def ascii_find(d):
    """`s.find(c)` / `rfind(c)` with a constant ASCII character: the needle is one byte wide"""
    d = strip(d)
    while d[0] in ("field", "as", "ref", "deref"):
        d = d[1]
    return d[0] == "call" and str(d[1]).endswith(("::find", "::rfind")) and len(d[2]) > 1 and strip(d[2][1])[0] == "const" \
        and isinstance(strip(d[2][1])[1], int) and strip(d[2][1])[1] < 128


def range_offsets(f, d):
    """offsets of a `Range{a, b}` / `RangeFrom{a}` / `RangeTo{b}` aggregate descriptor"""
    d = strip(d)
    while d[0] in ("ref", "deref"):
        d = d[1]
    if d[0] == "agg":
        return list(d[-1])
    return [d]


def _records(prog):
    if getattr(prog, "_charb_records", None) is not None:
        return prog._charb_records
    out = []
    counts = {}
    for f in sorted(prog.fns.values(), key=lambda f: (f.file, f.line, f.path)):
        if not arith.in_scope(f) or arith.generated(f.exp):
            continue
        for b, t in f.calls():
            if f.is_cleanup(b) or b not in f.live_blocks or arith.generated(t.get("exp") or []):
                continue
            fn = t.get("fn") or ""
            at = t.get("argtys") or []
            what = None
            offs = []
            if fn in CUTTERS:
                what = fn.rsplit("::", 1)[1]
                offs = [strip(f.desc_op(a)) for a in t["args"][1:2]]
                if what in ("replace_range", "drain"):
                    offs = range_offsets(f, f.desc_op(t["args"][1]))
            elif fn.endswith(("Index::index", "IndexMut::index_mut")) and at and at[0].lstrip("&").replace("mut ", "") in ("str", "alloc::string::String") \
                    and len(at) > 1 and "Range" in at[1] and "RangeFull" not in at[1]:
                what = "index"
                offs = range_offsets(f, f.desc_op(t["args"][1]))
            if what is None:
                continue
            root = f.root or f.path
            shape = ",".join(re.sub(r"_\d+", "_", arith.norm_shape(o))[:70] for o in offs)
            base = "%s:%s(%s)" % (root, what, shape)
            counts[base] = counts.get(base, 0) + 1
            key = base if counts[base] == 1 else "%s#%d" % (base, counts[base])
            out.append((f, b, t, what, offs, key))
    prog._charb_records = out
    return out


def run(prog, pred=None, floor=1):
    reviewed = arith.load_table("charb_reviewed.json")
    recs = _records(prog)
    moved = arith.MovedSites(reviewed, {r[5] for r in recs})
    obs = []
    n = 0
    for f, b, t, what, offs, key in recs:
        if pred is not None and not pred(f):
            continue
        n += 1
        st = site(f, t["line"])
        guarded = any(strip(x[2][0])[0] == "call" and str(strip(x[2][0])[1]).endswith("is_char_boundary") and x[2][1] is True for x in f.facts_at(b))
        if all(boundary(o) for o in offs):
            obs.append(ok(RULE, key, st, "offset(s) %s are character boundaries by construction" % [show(o)[:40] for o in offs]))
        elif guarded:
            obs.append(ok(RULE, key, st, "guarded by is_char_boundary"))
        elif key in reviewed and reviewed[key].get("class") == "structural":
            obs.append(ok(RULE, key, st, "reviewed: " + reviewed[key]["reason"]))
        else:
            mv = None if key in reviewed else moved.take(key, lambda e: e.get("class") == "structural")
            if mv:
                obs.append(ok(RULE, key, st, "reviewed (site moved within its module): " + mv["reason"]))
                continue
            why = reviewed.get(key, {}).get("reason", "")
            obs.append(bad(RULE, key, st, "`%s` at offset(s) %s: the offset is not a character boundary by construction, so a multi-byte character at that "
                           "position panics (`byte index N is not a char boundary`)%s" % (what, [show(o)[:60] for o in offs], ": " + why if why else "")))
    return obs, [Floor(RULE, "string cutting sites", n, floor)], {"string_cut_sites": n}
