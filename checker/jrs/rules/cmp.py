"""R-CMP: one order, one equality for numbers; operands of bitwise ops range-checked; relational
arms use the matching Ordering predicate."""
from .. import hir as H
from ..mir import strip, show, short_path, contains
from ..report import ok, bad, info, site, Floor

RULE = "R-CMP"
NUM = "jrsonnet_evaluator::val::NumValue"
OPS = "jrsonnet_evaluator::evaluate::operator::"
F64_PARTIAL_CMP = "core::cmp::impls::<impl core::cmp::PartialOrd for f64>::partial_cmp"


def fields_of_two_params(f, t):
    a = [strip(f.desc_op(x)) for x in t["args"]]
    return a


def run(prog):
    obs = []
    # (1) NumValue::cmp is IEEE partial_cmp of the two payloads
    f = prog.fn("<%s as core::cmp::Ord>::cmp" % NUM)
    key = "NumValue::cmp"
    if f is None:
        obs.append(bad(RULE, key, "", "Ord for NumValue not found"))
    else:
        calls = [(b, t) for b, t in f.calls() if not f.is_cleanup(b)]
        pc = [(b, t) for b, t in calls if (t.get("res") or "") == F64_PARTIAL_CMP]
        good = False
        if len(pc) == 1:
            a = fields_of_two_params(f, pc[0][1])
            if a == [("field", ("param", 1), "0"), ("field", ("param", 2), "0")]:
                good = True
        others = [t.get("res") or t.get("fn") for b, t in calls if (t.get("res") or "") != F64_PARTIAL_CMP
                  and "unwrap" not in (t.get("res") or "")]
        if good and not others:
            obs.append(ok(RULE, key, site(f), "the only comparison is <f64 as PartialOrd>::partial_cmp(self.0, other.0)"))
        else:
            obs.append(bad(RULE, key, site(f), "Ord for NumValue is not the IEEE partial order of the two payloads "
                           "(calls: %s)" % ", ".join(short_path(c or "?") for c in [t.get("res") for b, t in calls])))
    # (2) NumValue::eq is IEEE == of the payloads
    f = prog.fn("<%s as core::cmp::PartialEq>::eq" % NUM)
    key = "NumValue::eq"
    if f is None:
        obs.append(bad(RULE, key, "", "PartialEq for NumValue not found"))
    else:
        r = strip(f.desc_local(0))
        if r[0] == "bin" and r[1] == "Eq" and {r[2], r[3]} == {("field", ("param", 1), "0"), ("field", ("param", 2), "0")}:
            obs.append(ok(RULE, key, site(f), "returns self.0 == other.0 (f64)"))
        else:
            obs.append(bad(RULE, key, site(f), "PartialEq for NumValue returns %s, not the exact f64 ==" % show(r)))
    # (3) evaluate_compare_op: numbers are ordered by <NumValue as Ord>::cmp(a, b)
    f = prog.fn(OPS + "evaluate_compare_op")
    key = "evaluate_compare_op:Num"
    if f is None:
        obs.append(bad(RULE, key, "", "evaluate_compare_op not found"))
    else:
        hits = []
        for b, t in f.calls():
            if f.is_cleanup(b):
                continue
            argt = t.get("argtys") or []
            if argt and NUM in argt[0] and "cmp" in (t.get("fn") or "") + (t.get("res") or ""):
                hits.append((b, t))
        good = [t for b, t in hits if (t.get("res") or "") == "<%s as core::cmp::Ord>::cmp" % NUM]
        st = site(f)
        if len(hits) == 1 and good:
            a = fields_of_two_params(f, good[0])
            want = [("field", ("as", ("param", 1), "Num"), "0"), ("field", ("as", ("param", 2), "Num"), "0")]
            if a == want:
                obs.append(ok(RULE, key, st, "Num x Num is ordered by <NumValue as Ord>::cmp(a, b)"))
            else:
                obs.append(bad(RULE, key, st, "operands of the numeric comparison are %s, expected (a, b) in order" % [show(x) for x in a]))
        else:
            obs.append(bad(RULE, key, st, "Num x Num is not compared by exactly one call of <NumValue as Ord>::cmp (found: %s)"
                           % [short_path(t.get("res") or t.get("fn") or "?") for b, t in hits]))
    # (4) no total_cmp / ad-hoc float ordering on jsonnet numbers in evaluator + stdlib
    n_cmp_sites = 0
    for g in sorted(prog.fns.values(), key=lambda g: g.path):
        if g.crate.split(".")[0] not in ("jrsonnet_evaluator", "jrsonnet_stdlib"):
            continue
        for b, t in g.calls():
            r = (t.get("res") or "") + "|" + (t.get("fn") or "")
            if "total_cmp" in r:
                obs.append(bad(RULE, "%s:total_cmp" % g.path, site(g, t["line"]),
                               "f64::total_cmp orders -0 < 0 and is not the jsonnet number order"))
            if (t.get("res") or "") == F64_PARTIAL_CMP:
                n_cmp_sites += 1
                # allowed: inside NumValue::cmp; similarity scores (suggestions) in ctx.rs / error.rs
                if g.path.startswith("<%s as core::cmp::Ord>::cmp" % NUM):
                    continue
                args = [strip(g.desc_op(x)) for x in t["args"]]
                if any(contains(a, lambda x: x[0] == "as" and x[2] == "Num") for a in args):
                    obs.append(bad(RULE, "%s:partial_cmp-on-Num" % g.path, site(g, t["line"]),
                                   "a number payload is ordered with partial_cmp outside NumValue::cmp"))
                else:
                    obs.append(info(RULE, "%s:partial_cmp" % g.path, site(g, t["line"]), "float ordering on a non-jsonnet value (similarity score)"))
    # (5) HIR: relational arms and bitwise arms of evaluate_binary_op_normal
    obs.extend(check_binary_op_arms(prog))
    # (6) primitive_equals (Num,Num) arm is NumValue equality
    obs.extend(check_primitive_equals(prog))
    # (7) sort fast paths key on NumValue / IStr (Ord by content), generic paths on evaluate_compare_op
    obs.extend(check_sort(prog))
    obs.extend(check_div_guard(prog))
    obs.extend(check_safe_integer_consts(prog))
    obs.extend(check_f64_into_untyped(prog))
    floors = [Floor(RULE, "obligations", len([o for o in obs if o.status != "info"]), 14)]
    return obs, floors, {"f64_partial_cmp_sites": n_cmp_sites}


def check_safe_integer_consts(prog):
    """the bounds of the bitwise / integer-conversion range tests are +-(2^53 - 1), bit for bit (const-evaluated by the compiler)"""
    import struct
    obs = []
    want = {"jrsonnet_evaluator::typed::conversions::MAX_SAFE_INTEGER": 9007199254740991.0,
            "jrsonnet_evaluator::typed::conversions::MIN_SAFE_INTEGER": -9007199254740991.0}
    got = {}
    for unit, c in prog.consts():
        if c["path"] in want and c["ty"] == "f64":
            got[c["path"]] = struct.unpack("<d", struct.pack("<Q", int(c["bits"])))[0]
    for path, w in want.items():
        key = "const:%s" % path.rsplit("::", 1)[1]
        if path not in got:
            obs.append(bad(RULE, key, "", "constant %s not found (or not an f64)" % path))
        elif got[path] != w:
            obs.append(bad(RULE, key, "", "%s evaluates to %r, expected %r: the safe-integer range test of the bitwise operators and integer conversions is off by one "
                           "at the boundary" % (path.rsplit("::", 1)[1], got[path], w)))
        else:
            obs.append(ok(RULE, key, "", "%s = %r" % (path.rsplit("::", 1)[1], w)))
    return obs


def arm_op(arm):
    """BinaryOpType variant named by the middle position of the (a, op, b) tuple pattern"""
    p = arm[0]
    if H.tag(p) == "tup" and len(p[1]) == 3:
        v = H.pat_variants(p[1][1])
        if len(v) == 1:
            return v[0].rsplit("::", 1)[1], p[1][0], p[1][2]
    return None, None, None


def check_binary_op_arms(prog):
    obs = []
    h = prog.hir.get(OPS + "evaluate_binary_op_normal")
    f = prog.fn(OPS + "evaluate_binary_op_normal")
    if h is None:
        return [bad(RULE, "evaluate_binary_op_normal", "", "function not found")]
    ms = [m for m in H.matches(h["body"]) if H.tag(m[1]) == "tup"]
    if not ms:
        return [bad(RULE, "evaluate_binary_op_normal", site(f), "no (a, op, b) dispatch match found")]
    m = ms[0]
    want_rel = {"Lt": "is_lt", "Gt": "is_gt", "Lte": "is_le", "Gte": "is_ge"}
    seen = set()
    for arm in m[2]:
        op, pa, pb = arm_op(arm)
        if op is None:
            continue
        seen.add(op)
        body = arm[2]
        if op in want_rel:
            key = "relational:%s" % op
            preds = [c[1].rsplit("::", 1)[1] for c in H.calls(body) if H.callee(c).startswith("core::cmp::Ordering::is_")]
            cmpc = list(H.calls(body, path=OPS + "evaluate_compare_op"))
            na, nb = [x[0] for x in H.pat_binds(pa)], [x[0] for x in H.pat_binds(pb)]
            order_ok = False
            if len(cmpc) == 1:
                args = H.call_args(cmpc[0])
                order_ok = len(args) >= 2 and [H.local_name(args[0])] == na and [H.local_name(args[1])] == nb
            if preds == [want_rel[op]] and order_ok:
                obs.append(ok(RULE, key, site(f), "%s => evaluate_compare_op(a, b).%s()" % (op, want_rel[op])))
            else:
                obs.append(bad(RULE, key, site(f), "the `%s` arm uses %s on evaluate_compare_op(%s) (expected %s on (a, b))"
                               % (op, preds, "a, b" if order_ok else "operands not in order", want_rel[op])))
        if op in ("BitAnd", "BitOr", "BitXor", "Lhs", "Rhs"):
            key = "bitwise:%s" % op
            na, nb = [x[0] for x in H.pat_binds(pa)], [x[0] for x in H.pat_binds(pb)]
            body, na, nb = delegate(prog, body, na, nb)
            tr = [H.local_name(H.call_args(c)[0]) for c in H.calls(body, path=NUM + "::truncate_for_bitwise")]
            missing = [n for n in na + nb if n not in tr]
            # any other use of the raw payload (x.get() / *x as ...) other than the negative-shift test
            raw = []
            for c in H.calls(body, path=NUM + "::get"):
                raw.append(H.local_name(H.call_args(c)[0]))
            if missing:
                obs.append(bad(RULE, key, site(f), "operand(s) %s of `%s` do not pass through truncate_for_bitwise (safe-integer range check)" % (missing, op)))
            else:
                obs.append(ok(RULE, key, site(f), "both operands pass through truncate_for_bitwise"))
            if op in ("Lhs", "Rhs"):
                key = "shift-negative:%s" % op
                obs.append(check_negative_shift(f, body, nb, key))
    for op in list(want_rel) + ["BitAnd", "BitOr", "BitXor", "Lhs", "Rhs"]:
        if op not in seen:
            obs.append(bad(RULE, "arm:%s" % op, site(f), "no dedicated arm for BinaryOpType::%s" % op))
    return obs


def delegate(prog, body, na, nb):
    """an arm that only hands its operands to a local helper (`(Num(a), Lhs, Num(b)) => shift_left(*a, *b)?`) is analysed through
    the helper's body, with the operand names mapped to the helper's parameters"""
    b = H.strip_try(body)
    if H.tag(b) != "call":
        return body, na, nb
    p = H.def_path(b[1])
    h = prog.hir.get(p) if p else None
    if not h or not p.startswith("jrsonnet_evaluator::") or len(h.get("params", [])) != len(b[2]):
        return body, na, nb
    names = [H.local_name(a) for a in b[2]]
    pn = []
    for q in h["params"]:
        bs = H.pat_binds(q)
        pn.append(bs[0][0] if bs else None)
    m = dict(zip(names, pn))
    if not all(n in m and m[n] for n in na + nb):
        return body, na, nb
    return h["body"], [m[n] for n in na], [m[n] for n in nb]


def check_negative_shift(f, body, nb, key):
    """the first thing a shift arm does is `if <count>.get() < 0.0 { bail }` on the raw right operand"""
    if H.tag(body) != "block":
        return bad(RULE, key, site(f), "shift arm is not a block")
    stmts = body[1]
    idx_if = None
    for i, s in enumerate(stmts):
        if H.tag(s) == "if":
            c = s[1]
            if H.tag(c) == "binary" and c[1] == "<" and H.callee(c[2]) == NUM + "::get" and [H.local_name(H.call_args(c[2])[0])] == nb \
                    and H.tag(c[3]) == "lit" and str(c[3][2]) in ("0.0", "0", "0."):
                diverges = any(True for _ in H.nodes(s[2], "ret"))
                if diverges:
                    idx_if = i
                    break
    if idx_if is None:
        return bad(RULE, key, site(f), "no `if %s.get() < 0.0 { error }` test on the raw shift count" % (nb[0] if nb else "?"))
    # nothing derived from the count may be computed before the test
    for s in stmts[:idx_if]:
        for c in H.calls(s):
            args = H.call_args(c)
            if args and H.local_name(args[0]) in nb:
                return bad(RULE, key, site(f), "the shift count is used before the negative-count test")
    return ok(RULE, key, site(f), "negative shift count rejected on the raw operand before any truncation")


def check_primitive_equals(prog):
    f = prog.fn("jrsonnet_evaluator::val::primitive_equals")
    h = prog.hir.get("jrsonnet_evaluator::val::primitive_equals")
    key = "primitive_equals:Num"
    if h is None or f is None:
        return [bad(RULE, key, "", "primitive_equals not found")]
    for m in H.matches(h["body"]):
        for arm in m[2]:
            p = arm[0]
            if H.tag(p) == "tup" and len(p[1]) == 2:
                va, vb = H.pat_variants(p[1][0]), H.pat_variants(p[1][1])
                if va == ["jrsonnet_evaluator::val::Val::Num"] and vb == va:
                    body = arm[2]
                    na, nb = [x[0] for x in H.pat_binds(p[1][0])], [x[0] for x in H.pat_binds(p[1][1])]
                    if H.tag(body) == "binary" and body[1] == "==" and [H.local_name(body[2])] == na and [H.local_name(body[3])] == nb:
                        return [ok(RULE, key, site(f), "(Num(a), Num(b)) => a == b on NumValue (exact IEEE equality, see NumValue::eq)")]
                    return [bad(RULE, key, site(f), "numeric equality is not `a == b` on the two NumValue payloads (tolerance or transformed comparison)")]
    return [bad(RULE, key, site(f), "no (Num, Num) arm found")]


def check_sort(prog):
    obs = []
    for name in ("jrsonnet_stdlib::sort::sort_identity", "jrsonnet_stdlib::sort::sort_keyf"):
        f = prog.fn(name)
        key = "%s:order" % name.rsplit("::", 1)[1]
        if f is None:
            obs.append(bad(RULE, key, "", "%s not found" % name))
            continue
        problems = []
        n_sorts = 0
        for b, t in f.calls():
            fn = t.get("fn") or ""
            if not fn.startswith(("core::slice::<impl [T]>::sort", "alloc::slice::<impl [T]>::sort")):
                continue
            n_sorts += 1
            # closure argument -> its body
            cl = None
            for a in t["args"]:
                d = f.desc_op(a)
                if d[0] == "agg" and d[1] == "closure":
                    cl = prog.fn(d[2])
            if cl is None:
                problems.append("%s without an inspectable closure" % short_path(fn))
                continue
            ret = cl.locals[0]
            if fn.endswith("_by_key"):
                if ret not in (NUM, "jrsonnet_interner::IStr", "jrsonnet_evaluator::val::StrValue"):
                    problems.append("%s keyed on %s (not NumValue / string content)" % (short_path(fn), ret))
            else:
                # directly, or through a local comparator function shared by the sort paths
                if not prog.reaches_call(cl.path, lambda c: c == OPS + "evaluate_compare_op", depth=1):
                    problems.append("%s comparator does not call evaluate_compare_op" % short_path(fn))
            if name.endswith("sort_keyf") and "unstable" in fn:
                problems.append("keyed sort uses an unstable sort (%s): std.sort with keyF must be stable" % short_path(fn))
        if n_sorts < 3:
            problems.append("expected 3 sort call sites, found %d" % n_sorts)
        if problems:
            obs.append(bad(RULE, key, site(f), "; ".join(problems)))
        else:
            obs.append(ok(RULE, key, site(f), "number/string fast paths key on NumValue/IStr (Ord by content), generic path on evaluate_compare_op%s"
                          % ("; all stable" if name.endswith("keyf") else "")))
    return obs


def check_div_guard(prog):
    """float / and % are dominated by the zero-divisor test; the test compares the divisor with 0 exactly"""
    obs = []
    for name in ("evaluate_div_op", "evaluate_mod_op"):
        f = prog.fn(OPS + name)
        key = "%s:zero-guard" % name
        if f is None:
            obs.append(bad(RULE, key, "", "%s not found" % name))
            continue
        sites = []
        for b in sorted(f.live_blocks):
            for st in f.stmts(b):
                if st[0] == "a" and st[2][0] == "bin" and st[2][1] in ("Div", "Rem") and st[2][4] == "f64":
                    sites.append((b, st))
        if not sites:
            obs.append(bad(RULE, key, site(f), "no f64 %s found in %s" % ("/" if "div" in name else "%", name)))
            continue
        allok = True
        for b, st in sites:
            g = False
            for u, v, (d, val) in f.facts_at(b):
                sd = strip(d)
                if sd[0] == "call" and sd[1] == OPS + "is_attempt_to_divide_by_zero" and val is False \
                        and sd[2] == (("param", 1), ("param", 2)):
                    g = True
            if not g:
                allok = False
        if allok:
            obs.append(ok(RULE, key, site(f), "every f64 division is dominated by !is_attempt_to_divide_by_zero(a, b)"))
        else:
            obs.append(bad(RULE, key, site(f), "an f64 division in %s is not dominated by the zero-divisor test on (a, b)" % name))
    h = prog.hir.get(OPS + "is_attempt_to_divide_by_zero")
    f = prog.fn(OPS + "is_attempt_to_divide_by_zero")
    key = "is_attempt_to_divide_by_zero:Num"
    good = False
    if h:
        for m in H.matches(h["body"]):
            for arm in m[2]:
                p = arm[0]
                if H.tag(p) == "tup" and len(p[1]) == 2 and H.pat_is_wild(p[1][0]) and H.pat_variants(p[1][1]) == ["jrsonnet_evaluator::val::Val::Num"]:
                    body = arm[2]
                    nb = [x[0] for x in H.pat_binds(p[1][1])]
                    if H.tag(body) == "binary" and body[1] == "==" and H.tag(body[3]) == "lit" and str(body[3][2]).rstrip(".0") in ("", "0"):
                        inner = body[2]
                        while H.tag(inner) == "unary" and inner[1] == "*":
                            inner = inner[2]
                        if [H.local_name(inner)] == nb:
                            good = True
    if good:
        obs.append(ok(RULE, key, site(f), "(_, Num(b)) => b == 0.0"))
    else:
        obs.append(bad(RULE, key, site(f), "the zero-divisor test for numbers is not `divisor == 0.0`"))
    return obs


def check_f64_into_untyped(prog):
    """builtin results of type f64 re-enter through the finite check"""
    key = "IntoUntyped<f64>"
    cands = [f for f in prog.fns.values() if f.path.startswith("<f64 as jrsonnet_evaluator::typed::conversions::IntoUntyped>::into_untyped")]
    if not cands:
        return [bad(RULE, key, "", "IntoUntyped for f64 not found")]
    f = cands[0]
    callees = [(t.get("res") or t.get("fn") or "") for b, t in f.calls() if not f.is_cleanup(b)]
    if any(c.startswith("jrsonnet_evaluator::val::Val::try_num") for c in callees) and not any("Val::num" == c[-8:] for c in callees):
        return [ok(RULE, key, site(f), "f64 -> Val goes through Val::try_num (finite check)")]
    return [bad(RULE, key, site(f), "f64 -> Val conversion does not go through Val::try_num: %s" % [short_path(c) for c in callees])]
