"""R-NUMCTOR: the finite-number invariant is established at every construction of NumValue."""
from ..mir import strip, show, short_path, contains
from ..report import ok, bad, info, site, Floor

RULE = "R-NUMCTOR"
NUM = "jrsonnet_evaluator::val::NumValue"
SMALL_INTS = ("i8", "u8", "i16", "u16", "i32", "u32")
IS_FINITE = "f64::<impl f64>::is_finite"


def run(prog):
    obs = []
    n = 0
    for f in sorted(prog.fns.values(), key=lambda f: f.path):
        for b in sorted(f.live_blocks):
            for s in f.stmts(b):
                if s[0] != "a":
                    continue
                rv = s[2]
                if rv[0] == "agg" and rv[1] == "adt" and rv[2] == NUM:
                    n += 1
                    obs.append(check_site(prog, f, b, s))
                if rv[0] == "cast" and NUM in rv[3] and rv[1] in ("Transmute", "PtrToPtr") and NUM not in rv[4]:
                    obs.append(bad(RULE, "%s:cast-into-NumValue" % f.path, site(f, s[3]),
                                   "a %s cast fabricates a NumValue from %s without the finite check" % (rv[1], rv[4])))
    # the checked constructor must test is_finite, not something weaker
    newf = prog.fn(NUM + "::new")
    floors = [Floor(RULE, "NumValue construction sites", n, 8)]
    # who may construct: all sites are inside val.rs (field is private; witness crate proves it for foreign crates)
    return obs, floors, {"numvalue_construction_sites": n}


def check_site(prog, f, b, s):
    rv = s[2]
    op = rv[4][0]
    d = strip(f.desc_op(op))
    key = "%s:construct" % f.path
    st = site(f, s[3])
    # (i) dominated by is_finite(x) == true on the same operand
    for u, v, (fd, val) in f.facts_at(b):
        sd = strip(fd)
        if sd[0] == "call" and sd[1].endswith(IS_FINITE) and val is True and len(sd[2]) == 1 and sd[2][0] == d:
            return ok(RULE, key, st, "dominated by %s == true" % show(sd))
        if sd[0] == "un" and sd[1] == "Not" and sd[2][0] == "call" and sd[2][1].endswith(IS_FINITE) and val is False and sd[2][2][0] == d:
            return ok(RULE, key, st, "dominated by !(%s) == false" % show(sd[2]))
    # (ii) lossless conversion of a <=32-bit integer
    if d[0] == "call" and d[1].endswith("::into") and len(d[2]) == 1:
        # find the call terminator to read the argument type
        for bb, t in f.calls():
            if (t.get("fn") or "").endswith("::into") and t["argtys"] and t["argtys"][0] in SMALL_INTS:
                return ok(RULE, key, st, "lossless %s -> f64 conversion" % t["argtys"][0])
    if d[0] == "cast" and d[1] == "IntToFloat" and d[4] in SMALL_INTS:
        return ok(RULE, key, st, "IntToFloat cast of %s" % d[4])
    # (iii) 64-bit int -> float under the safe-integer range guard
    if d[0] == "cast" and d[1] == "IntToFloat":
        lo = hi = False
        for u, v, (fd, val) in f.facts_at(b):
            sd = strip(fd)
            if sd[0] == "bin" and sd[2] == d and isinstance(val, bool):
                c = sd[3]
                name = show(c)
                if sd[1] == "Lt" and val is False and "MIN_SAFE_INTEGER" in name:
                    lo = True
                if sd[1] == "Gt" and val is False and "MAX_SAFE_INTEGER" in name:
                    hi = True
                if sd[1] == "Ge" and val is True and "MIN_SAFE_INTEGER" in name:
                    lo = True
                if sd[1] == "Le" and val is True and "MAX_SAFE_INTEGER" in name:
                    hi = True
        if lo and hi:
            return ok(RULE, key, st, "64-bit integer cast guarded by MIN_SAFE_INTEGER <= v <= MAX_SAFE_INTEGER")
        return bad(RULE, key, st, "NumValue built from a %s -> f64 cast without both safe-integer range guards (lo=%s hi=%s)" % (d[4], lo, hi))
    return bad(RULE, key, st, "NumValue(%s) is constructed without a dominating is_finite() test on the same value "
               "(NaN/infinity could become observable)" % show(d))
