"""R-INDEX: MIR BoundsCheck asserts on hand-written code are discharged by a constant bound, a
masking idiom, a dominating `i < len` / non-empty guard, or a reviewed table entry."""
from ..mir import strip, show, short_path
from ..report import ok, bad, info, site, Floor
from . import arith

RULE = "R-INDEX"


def lenof(d):
    """normalise length descriptors: PtrMetadata(x) / len(x) / as_bytes"""
    d = strip(d)
    if d[0] == "call" and (d[1].endswith("::len") and len(d[2]) == 1):
        return ("lenof", base(d[2][0]))
    if d[0] == "unknown":
        return d
    return d


def base(d):
    d = strip(d)
    while d[0] == "call" and len(d[2]) == 1 and d[1].endswith(("::as_bytes", "::as_str", "::as_slice", "::deref")):
        d = strip(d[2][0])
    if d[0] == "cast":
        return base(d[2])
    return d


def _records(prog):
    """every BoundsCheck site of hand-written product code: (fn, block, terminator, key, L, I, arr)"""
    if getattr(prog, "_index_records", None) is not None:
        return prog._index_records
    out = []
    counts = {}
    for f in sorted(prog.fns.values(), key=lambda f: (f.file, f.line, f.path)):
        if not arith.in_scope(f):
            continue
        if arith.generated(f.exp) or "#[builtin]" in f.exp:
            continue
        for b, t in f.asserts():
            if t["kind"] != "BoundsCheck" or b not in f.live_blocks:
                continue
            if arith.generated(t["exp"]) or "#[builtin]" in t["exp"]:
                continue
            raw_len = t["ops"][0]
            L = strip(f.desc_op(raw_len))
            I = strip(f.desc_op(t["ops"][1]))
            # the length operand is `PtrMetadata(place)`/const; find what it is the length of
            arr = indexed_base(f, b, t)
            basekey = "%s:[%s;%s]" % (f.path, arith.norm_shape(arr) if arr else arith.norm_shape(L), arith.norm_shape(I))
            counts[basekey] = counts.get(basekey, 0) + 1
            key = basekey if counts[basekey] == 1 else "%s#%d" % (basekey, counts[basekey])
            out.append((f, b, t, key, L, I, arr))
    prog._index_records = out
    return out


def run(prog, pred=None, floor=None):
    reviewed = arith.load_table("index_reviewed.json")
    obs = []
    n = 0
    recs = _records(prog)
    moved = arith.MovedSites(reviewed, {r[3] for r in recs})
    for f, b, t, key, L, I, arr in recs:
        if pred is not None and not pred(f):
            continue
        n += 1
        st = site(f, t["line"])
        why = discharge(f, b, L, I, arr)
        if why:
            obs.append(ok(RULE, key, st, why))
        elif key in reviewed:
            obs.append(ok(RULE, key, st, "reviewed: " + reviewed[key]["reason"]))
        else:
            mv = moved.take(key)
            if mv:
                obs.append(ok(RULE, key, st, "reviewed (site moved within its module): " + mv["reason"]))
            else:
                obs.append(bad(RULE, key, st, "index `%s` into `%s` is not dominated by a bound check (no guard, idiom or reviewed entry)"
                               % (show(I), show(arr) if arr else show(L))))
    floors = [Floor(RULE, "BoundsCheck sites", n, floor)] if floor else []
    return obs, floors, {"bounds_check_sites": n}


def indexed_base(f, b, t):
    """the place whose length the assert compares against: Len/PtrMetadata(place) assigned just before"""
    op = t["ops"][0]
    if op[0] in ("cp", "mv") and len(op[1]) == 1:
        sd = f.single_def(op[1][0])
        if sd and sd[0] == "s":
            rv = sd[4]
            if rv[0] == "un" and rv[1] == "PtrMetadata":
                return base(f.desc_op(rv[2]))
    return None


def ubound(d):
    """static upper bound (exclusive) of an integer descriptor, or None"""
    d = strip(d)
    if d[0] == "const" and isinstance(d[1], int):
        return d[1] + 1
    if d[0] == "cast":
        src = d[4] if len(d) > 4 else None
        inner = ubound(d[2])
        tb = {"u8": 256, "u16": 65536, "bool": 2}.get(src)
        if inner is not None and tb is not None:
            return min(inner, tb)
        return inner if inner is not None else tb
    if d[0] == "bin":
        if d[1] == "BitAnd":
            for x in (d[2], d[3]):
                if x[0] == "const" and isinstance(x[1], int):
                    return x[1] + 1
        if d[1] == "Shr" and d[3][0] == "const" and isinstance(d[3][1], int):
            inner = ubound(d[2])
            if inner is None and len(d) > 4:
                inner = {"u8": 256, "u16": 65536}.get(d[4])
            if inner is not None:
                return ((inner - 1) >> d[3][1]) + 1
        if d[1] == "Rem" and d[3][0] == "const" and isinstance(d[3][1], int) and d[3][1] > 0:
            return d[3][1]
    return None


def discharge(f, b, L, I, arr):
    if L[0] == "const" and isinstance(L[1], int):
        ub = ubound(I)
        if ub is None and I[0] in ("field", "as", "deref", "index", "var", "param"):
            # typed bound: a u8 place
            pass
        if ub is not None and ub <= L[1]:
            return "index < %d <= constant length %d" % (ub, L[1])
    facts = arith.cmp_facts(f, b)
    target = ("lenof", arr) if arr is not None else None
    for fct in facts:
        op = fct[0]
        if op in ("Lt",) and strip(fct[1]) == I and target and lenof(fct[2]) == target:
            return "guarded: %s < len" % show(I)
        if op in ("Gt",) and strip(fct[2]) == I and target and lenof(fct[1]) == target:
            return "guarded: len > %s" % show(I)
    # for i in 0..len
    if target:
        rng = find_range(I)
        if rng is not None and len(rng[4]) == 2 and lenof(rng[4][1]) == target:
            return "index drawn from the range ..len of the same slice"
    # scanner idiom: a counter that starts at 0, only ever grows by 1, and is compared for
    # (in)equality with the length on the dominating edge  =>  counter < len
    if I[0] == "var" and target and counter_from_zero(f, I[1]):
        for fct in facts:
            if fct[0] == "Ne" and ((strip(fct[1]) == I and lenof(fct[2]) == target) or (strip(fct[2]) == I and lenof(fct[1]) == target)):
                return "scanner idiom: %s starts at 0, grows by 1, and != len dominates" % show(I)
    if I[0] == "var" and target and counter_from_zero(f, I[1]):
        r = loop_scanner(f, b, I, target, arr, facts)
        if r:
            return r
    # cursor idiom: a variable that starts at len and only ever shrinks, read at `cursor - k` (k >= 1): the index is < len (that the
    # subtraction does not wrap is R-ARITH's obligation, not this one)
    J = I[1] if I[0] == "field" and I[2] == "0" else I
    if J[0] == "bin" and J[1] == "Sub" and J[2][0] == "var" and J[3][0] == "const" and isinstance(J[3][1], int) and J[3][1] >= 1 and arr is not None \
            and cursor_from_len(f, J[2][1], arr):
        return "cursor idiom: %s starts at len of the same text and only shrinks, read at cursor - %d" % (show(J[2]), J[3][1])
    if I[0] == "const" and isinstance(I[1], int) and target:
        need = I[1] + 1
        for fct in facts:
            op = fct[0]
            if op == "callbool" and fct[2] is False and fct[1][1].endswith("::is_empty") and base(fct[1][2][0]) == arr and need == 1:
                return "guarded: !is_empty()"
            if op in ("Ne",) and lenof(fct[1]) == target and fct[2] == ("const", 0) and need == 1:
                return "guarded: len != 0"
            if op in ("Ge", "Gt", "Eq") and lenof(fct[1]) == target and fct[2][0] == "const" and isinstance(fct[2][1], int):
                k = fct[2][1] + (1 if op == "Gt" else 0)
                if k >= need:
                    return "guarded: len %s %s" % (op, fct[2][1])
            if op in ("Le", "Lt") and lenof(fct[2]) == target and fct[1][0] == "const" and isinstance(fct[1][1], int):
                k = fct[1][1] + (1 if op == "Lt" else 0)
                if k >= need:
                    return "guarded: %s %s len" % (fct[1][1], op)
    return None


def counter_from_zero(f, l):
    ds = f.defs.get(l, [])
    if not ds:
        return False
    for df in ds:
        if df[0] != "s" or len(df[3]) != 1:
            return False
        rv = df[4]
        if rv[0] == "use" and rv[1][0] == "c" and rv[1][2] == 0:
            continue
        d = strip(f.desc_rvalue(rv))
        # i = (i + 1).0  (checked add result)
        if d[0] == "field" and d[2] == "0":
            d = d[1]
        if d[0] == "bin" and d[1] == "Add" and d[2] == ("var", l) and d[3] == ("const", 1):
            continue
        return False
    return True


def cursor_from_len(f, l, arr):
    ds = f.defs.get(l, [])
    if not ds:
        return False
    seeded = False
    for df in ds:
        if len(df[3]) != 1:
            return False
        if df[0] == "call":
            t = df[4]
            if (t.get("fn") or "").endswith("::len") and len(t["args"]) == 1 and base(f.desc_op(t["args"][0])) == arr:
                seeded = True
                continue
            return False
        if df[0] != "s":
            return False
        d = strip(f.desc_rvalue(df[4]))
        if d[0] == "field" and d[2] == "0":
            d = d[1]
        if d[0] == "bin" and d[1] == "Sub" and d[2] == ("var", l) and d[3][0] == "const" and isinstance(d[3][1], int) and d[3][1] >= 0:
            continue
        return False
    return seeded


def loop_scanner(f, b, I, target, arr, facts):
    """while-loop form: the first access (counter == 0) is covered by a dominating non-empty test, and every
    path from an increment back to the access crosses an edge on which counter != len holds"""
    l = I[1]
    nonempty = False
    for fct in facts:
        if fct[0] == "callbool" and fct[2] is False and fct[1][1].endswith("::is_empty") and base(fct[1][2][0]) == arr:
            nonempty = True
        if fct[0] == "Ne" and lenof(fct[1]) == target and fct[2] == ("const", 0):
            nonempty = True
    if not nonempty:
        return None
    good_edges = set()
    bad_edges = set()
    for u, v, (d, val) in f._cond_edge_list():
        sd = strip(d)
        if sd[0] == "bin" and sd[1] in ("Eq", "Ne") and isinstance(val, bool):
            a, c = sd[2], sd[3]
            if (a == I and lenof(c) == target) or (c == I and lenof(a) == target):
                ne = (sd[1] == "Ne") == val
                (good_edges if ne else bad_edges).add((u, v))
    if not good_edges:
        return None
    incs = [df[1] for df in f.defs.get(l, []) if not (df[4][0] == "use" and df[4][1][0] == "c")]
    for D in incs:
        seen = {D}
        st = [D]
        while st:
            x = st.pop()
            for y in f.succs[x]:
                if (x, y) in good_edges:
                    continue
                if y == b:
                    if (x, y) in bad_edges:
                        continue
                    return None
                if y not in seen:
                    seen.add(y)
                    st.append(y)
    return "loop scanner idiom: non-empty input dominates the first access and every increment of %s is followed by a `!= len` test before the next access" % show(I)


def find_range(d):
    if not isinstance(d, tuple):
        return None
    if d and d[0] == "agg" and d[2].endswith("ops::range::Range"):
        return d
    for x in d:
        if isinstance(x, tuple):
            r = find_range(x)
            if r:
                return r
    return None
