"""R-BOUNDS: every ArrayLike view establishes `index < self.len()` exactly before it translates,
indexes with, captures or forwards (to a differently-sized inner array) the index."""
import re
from ..mir import strip, show, short_path, contains, opname
from ..report import ok, bad, info, site, Floor

RULE = "R-BOUNDS"
TRAIT = "jrsonnet_evaluator::arr::spec::ArrayLike"
METHODS = ("get", "get_lazy", "get_cheap")
CMP = ("Lt", "Le", "Gt", "Ge", "Eq", "Ne")

# accessors that return None themselves when the index is outside the receiver's own storage
CHECKED_ACCESSORS = (
    "core::slice::<impl [T]>::get",
    "core::iter::traits::iterator::Iterator::nth",
)
ARR_ACCESSORS_SUFFIX = ("::get", "::get_lazy", "::get_cheap")

# Reviewed exception (DESIGN.md R-BOUNDS): ExtendedArray partitions [0,len) into [0,split) -> a and
# [split,len) -> b with len = split + b.len() fixed by its only constructor; forwarding
# `index - split` to b under the `index >= split` edge is an exact cover.
PARTITION = {
    "jrsonnet_evaluator::arr::spec::ExtendedArray": {"lower": "split", "lo": "a", "hi": "b", "len": "len"},
}


def is_arr_accessor(callee):
    if not callee:
        return False
    if callee.startswith("jrsonnet_evaluator::arr::ArrValue::") and callee.endswith(ARR_ACCESSORS_SUFFIX):
        return True
    if "jrsonnet_evaluator::arr::spec::ArrayLike>::" in callee and callee.endswith(ARR_ACCESSORS_SUFFIX):
        return True
    if callee.startswith(TRAIT + "::") and callee.endswith(ARR_ACCESSORS_SUFFIX):
        return True
    return False


def taint(fn, src=2):
    """locals holding the index unchanged (val) or a reference to it (ref)"""
    val, ref = {src}, set()
    changed = True
    while changed:
        changed = False
        for b in range(fn.n):
            for s in fn.stmts(b):
                if s[0] != "a" or len(s[1]) != 1:
                    continue
                dst, rv = s[1][0], s[2]
                if rv[0] == "use" and rv[1][0] in ("cp", "mv"):
                    pl = rv[1][1]
                    if len(pl) == 1 and pl[0] in val and dst not in val:
                        val.add(dst); changed = True
                    if len(pl) == 1 and pl[0] in ref and dst not in ref:
                        ref.add(dst); changed = True
                    if len(pl) == 2 and pl[1] == "*" and pl[0] in ref and dst not in val:
                        val.add(dst); changed = True
                elif rv[0] == "ref":
                    pl = rv[2]
                    if len(pl) == 1 and pl[0] in val and dst not in ref:
                        ref.add(dst); changed = True
                    if len(pl) == 2 and pl[1] == "*" and pl[0] in ref and dst not in ref:
                        ref.add(dst); changed = True
    return val, ref


def op_tainted(op, val, ref):
    if op[0] in ("cp", "mv"):
        pl = op[1]
        if len(pl) == 1 and (pl[0] in val or pl[0] in ref):
            return True
        if len(pl) == 2 and pl[1] == "*" and pl[0] in ref:
            return True
    return False


def place_uses_index(pl, val):
    for pr in pl[1:]:
        if pr.startswith("[_") and int(pr[2:-1]) in val:
            return True
    return False


def len_descs(prog, fn, impl=None):
    """descriptors that denote self.len() inside methods of fn's impl"""
    impl = impl or fn.parent
    lenfn = prog.fn(impl + "::len")
    out = {"fn": lenfn, "ret": None}
    if lenfn is not None:
        rets = lenfn.returns()
        if len(rets) == 1:
            out["ret"] = strip(lenfn.desc_local(0))
    return out


def is_len_of_self(d, lens, impl):
    s = strip(d)
    if s[0] == "call" and s[1] in (impl + "::len", TRAIT + "::len") and len(s[2]) == 1 and s[2][0] == ("param", 1):
        return True
    if lens["ret"] is not None and s == lens["ret"] and contains(s, lambda x: x == ("param", 1)):
        return True
    return False


def index_lt(fact, is_index, is_bound):
    """does (desc,value) establish index < bound ?  returns True / False / 'weak' (<=)"""
    d, v = fact
    if d[0] != "bin" or d[1] not in CMP or not isinstance(v, bool):
        return None
    op, a, b = d[1], d[2], d[3]
    if is_index(a) and is_bound(b):
        rel = op if v else {"Lt": "Ge", "Ge": "Lt", "Gt": "Le", "Le": "Gt", "Eq": "Ne", "Ne": "Eq"}[op]
        return {"Lt": True, "Le": "weak", "Eq": False, "Ne": False, "Gt": False, "Ge": False}[rel]
    if is_bound(a) and is_index(b):
        rel = op if v else {"Lt": "Ge", "Ge": "Lt", "Gt": "Le", "Le": "Gt", "Eq": "Ne", "Ne": "Eq"}[op]
        # bound REL index
        return {"Gt": True, "Ge": "weak", "Eq": False, "Ne": False, "Lt": False, "Le": False}[rel]
    return None


def run(prog):
    obs = []
    impls = []
    for f in prog.fns.values():
        if f.impl_trait == TRAIT and f.path.rsplit("::", 1)[1] in METHODS:
            impls.append(f)
    impl_names = sorted({f.parent for f in impls})
    for f in sorted(impls, key=lambda f: f.path):
        obs.extend(check_method(prog, f))
    obs.extend(check_partition_ctor(prog))
    obs.extend(check_siblings(prog, impls))
    obs.extend(check_is_empty(prog))
    floors = [Floor(RULE, "impl ArrayLike for T", len(impl_names), 13),
              Floor(RULE, "accessor methods", len(impls), 39)]
    return obs, floors, {"impls": impl_names}


def check_method(prog, f, src=2, _depth=0, _impl=None):
    obs = []
    impl = _impl or f.parent          # a helper in an inherent impl is judged against len() of the accessor's trait impl
    self_ty = f.self_ty
    method = f.path.rsplit("::", 1)[1]
    tname = short_path(self_ty)
    val, ref = taint(f, src)
    lens = len_descs(prog, f, impl)
    is_index = lambda d: strip(d) == ("param", src)
    is_bound = lambda d: is_len_of_self(d, lens, impl)

    def guarded(b):
        weak = None
        for u, v, fact in f.facts_at(b):
            r = index_lt(fact, is_index, is_bound)
            if r is True:
                return True, "dominated by `%s` = %s (bb%d->bb%d)" % (show(fact[0]), fact[1], u, v)
            if r == "weak":
                weak = "the dominating test `%s` = %s only establishes index <= len" % (show(fact[0]), fact[1])
        return False, weak or "no dominating test establishes index < self.len()"

    # is len() a pure forward of one inner field's len()?
    fwd_field = None
    if lens["ret"] is not None:
        r = lens["ret"]
        if r[0] == "call" and r[1].endswith("::len") and len(r[2]) == 1 and r[2][0][0] == "field" and r[2][0][1] == ("param", 1):
            fwd_field = r[2][0][2]

    part = PARTITION.get(self_ty)
    sinks = []  # (block, kind, label, needs_guard, line)
    for b in sorted(f.live_blocks):
        if f.is_cleanup(b):
            continue
        for s in f.stmts(b):
            if s[0] != "a":
                continue
            rv = s[2]
            line = s[3]
            if place_uses_index(s[1], val):
                sinks.append((b, "index", "store through [index]", line, None))
            if rv[0] == "bin":
                ta, tb = op_tainted(rv[2], val, ref), op_tainted(rv[3], val, ref)
                if (ta or tb) and opname(rv[1]) not in CMP:
                    sinks.append((b, "arith", "%s" % opname(rv[1]), line, rv))
            elif rv[0] == "cast" and op_tainted(rv[2], val, ref):
                sinks.append((b, "cast", "as %s" % rv[3], line, None))
            elif rv[0] == "agg" and any(op_tainted(o, val, ref) for o in rv[4]):
                sinks.append((b, "capture", "%s %s" % (rv[1], short_path(rv[2])), line, None))
            elif rv[0] in ("ref", "use", "discr"):
                pl = rv[2] if rv[0] == "ref" else (rv[1][1] if rv[0] == "use" and rv[1][0] in ("cp", "mv") else (rv[1] if rv[0] == "discr" else None))
                if pl and place_uses_index(pl, val):
                    sinks.append((b, "index", "[index] on %s" % show(f.desc_place(pl[:1])), line, None))
        t = f.term(b)
        if isinstance(t, dict) and t["k"] == "call":
            targs = [i for i, a in enumerate(t["args"]) if op_tainted(a, val, ref)]
            if targs:
                callee = t.get("res") or t.get("fn") or ""
                unres = t.get("fn") or ""
                recv = strip(f.desc_op(t["args"][0])) if t["args"] else None
                if unres in CHECKED_ACCESSORS or callee in CHECKED_ACCESSORS:
                    sinks.append((b, "checked-accessor", short_path(unres), t["line"], ("safe", "accessor returns None outside the receiver's own storage")))
                elif is_arr_accessor(callee) or is_arr_accessor(unres):
                    if recv == ("param", 1):
                        sinks.append((b, "sibling", short_path(callee), t["line"], ("safe", "forwards to a sibling accessor of the same view")))
                    elif fwd_field is not None and recv == ("field", ("param", 1), fwd_field) and 0 not in targs:
                        sinks.append((b, "forward", "%s.%s" % (fwd_field, short_path(callee)), t["line"], ("safe", "len() is a pure forward of %s.len(), so the inner array's own bound is this view's bound" % fwd_field)))
                    else:
                        sinks.append((b, "forward", "%s.%s" % (show(recv), short_path(callee)), t["line"], None))
                elif unres in ("core::ops::index::Index::index", "core::ops::index::IndexMut::index_mut"):
                    sinks.append((b, "index", "%s on %s" % (short_path(unres), show(recv)), t["line"], None))
                elif unres.startswith("core::cmp::"):
                    pass
                elif re.match(r"core::num::<impl [ui](8|16|32|64|128|size)>::(checked|saturating|wrapping|overflowing)_(add|sub|mul)$", unres):
                    pass  # cannot trap; its result is a new value, tested by whoever uses it
                else:
                    # a private helper of the same view type that receives the index and tests it itself (`fn map_idx(&self, i) ->
                    # Option<usize>`): analysed like an accessor, with the receiving parameter as the index
                    hf = prog.fn(callee) if _depth < 2 else None
                    extra = None
                    if hf is not None and hf.self_ty == self_ty and len(targs) == 1 and targs[0] >= 1:
                        sub = check_method(prog, hf, src=targs[0] + 1, _depth=_depth + 1, _impl=impl)
                        if sub and all(o.status != "open" for o in sub):
                            extra = ("safe", "the helper %s tests the index against len() itself before using it" % short_path(callee))
                    sinks.append((b, "helper", short_path(callee), t["line"], extra))
        elif isinstance(t, dict) and t["k"] == "assert":
            if any(op_tainted(o, val, ref) for o in t["ops"]):
                pass  # the assert belongs to the arithmetic/index statement already listed

    counts = {}
    if not sinks:
        obs.append(ok(RULE, "%s::%s:no-use" % (tname, method), site(f), "index is not used", nontrivial=False))
    for b, kind, label, line, extra in sinks:
        base = "%s::%s:%s(%s)" % (tname, method, kind, label)
        counts[base] = counts.get(base, 0) + 1
        key = base if counts[base] == 1 else "%s#%d" % (base, counts[base])
        st = site(f, line)
        if isinstance(extra, tuple) and extra and extra[0] == "safe":
            obs.append(ok(RULE, key, st, extra[1], nontrivial=(kind != "sibling")))
            continue
        g, why = guarded(b)
        if g:
            obs.append(ok(RULE, key, st, why))
            continue
        # reviewed partition exception
        if part is not None:
            r = partition_ok(f, b, kind, extra, part, is_index)
            if r:
                obs.append(ok(RULE, key, st, r))
                continue
        obs.append(bad(RULE, key, st,
                       "%s::%s uses the index (%s: %s) but %s" % (tname, method, kind, label, why)))
    return obs


def partition_ok(f, b, kind, rv, part, is_index):
    lower = lambda d: strip(d) == ("field", ("param", 1), part["lower"])
    est = None
    for u, v, fact in f.facts_at(b):
        d, val = fact
        if d[0] == "bin" and isinstance(val, bool):
            r_lt = index_lt(fact, is_index, lower)  # index < split
            if r_lt is True:
                est = ("lt", u, v)
            # index >= split  <=>  not (index < split)
            neg = index_lt((d, not val), is_index, lower)
            if neg is True:
                est = ("ge", u, v)
        # `index.checked_sub(self.split)`: Some <=> index >= split, None <=> index < split
        if isinstance(val, tuple) and val[0] == "variant" and val[1] in ("Some", "None"):
            sd = strip(d)
            c = strip(sd[1]) if sd[0] == "discr" else None
            if c is not None and c[0] == "call" and str(c[1]).endswith("::checked_sub") and len(c[2]) == 2 and is_index(c[2][0]) and lower(c[2][1]):
                est = ("ge" if val[1] == "Some" else "lt", u, v)
    if est is None:
        return None
    if est[0] == "lt" and kind == "capture":
        return "partition idiom: index < self.%s (checked_sub gave None), handed on unchanged for the lower part" % part["lower"]
    if est[0] == "lt" and kind == "forward":
        return "partition idiom: index < self.%s, forwarded unchanged to the lower part" % part["lower"]
    if est[0] == "ge":
        if kind == "arith" and rv is not None and opname(rv[1]) == "Sub" and is_index(f.desc_op(rv[2])) and lower(f.desc_op(rv[3])):
            return "partition idiom: index >= self.%s dominates `index - self.%s`" % (part["lower"], part["lower"])
        if kind == "forward":
            return "partition idiom: (index - self.%s) forwarded to the upper part whose own bound is len - %s" % (part["lower"], part["lower"])
    return None


def check_partition_ctor(prog):
    """the constructor facts the partition exception relies on: split = a.len(), len = split + b.len()"""
    obs = []
    for ty, part in PARTITION.items():
        sites = []
        for f in prog.fns.values():
            for b in range(f.n):
                for s in f.stmts(b):
                    if s[0] == "a" and s[2][0] == "agg" and s[2][1] == "adt" and s[2][2] == ty:
                        sites.append((f, b, s))
        key = "%s:constructor" % short_path(ty)
        if not sites:
            obs.append(bad(RULE, key, "", "no construction site of %s found" % ty))
            continue
        for f, b, s in sites:
            fields = s[2][5]
            ops = s[2][4]
            vals = {fields[i]: strip(f.desc_op(ops[i])) for i in range(len(fields))}
            a_len = vals.get(part["lower"])
            ln = vals.get(part["len"])
            lo, hi = vals.get(part["lo"]), vals.get(part["hi"])
            good = True
            why = []
            # split == len(a)
            if not (a_len and a_len[0] == "call" and a_len[1].endswith("::len") and a_len[2] and a_len[2][0] == lo):
                good = False
                why.append("%s is %s, not %s.len()" % (part["lower"], show(a_len), part["lo"]))
            # len == checked_add(split, len(b)) unwrapped
            txt = show(ln)
            need = lambda d: contains(d, lambda x: x and x[0] == "call" and "checked_add" in x[1])
            if not (ln and need(ln)):
                good = False
                why.append("len is %s, not a checked sum" % txt)
            else:
                def find(d):
                    if d[0] == "call" and "checked_add" in d[1]:
                        return d
                    for x in d:
                        if isinstance(x, tuple):
                            r = find(x)
                            if r:
                                return r
                    return None
                ca = find(ln)
                args = ca[2]
                blen = ("call", a_len[1] if a_len and a_len[0] == "call" else "", (hi,))
                if not (len(args) == 2 and a_len in args and any(x[0] == "call" and x[1].endswith("::len") and x[2] and x[2][0] == hi for x in args)):
                    good = False
                    why.append("len is %s, not %s.len() + %s.len()" % (txt, part["lo"], part["hi"]))
            st = site(f, s[3])
            if good:
                obs.append(ok(RULE, key, st, "%s = %s.len(), %s = checked_add(%s.len(), %s.len())" % (part["lower"], part["lo"], part["len"], part["lo"], part["hi"])))
            else:
                obs.append(bad(RULE, key, st, "partition exception no longer justified: " + "; ".join(why)))
    return obs


def _unwrap_plumbing(d):
    """`(x as Some).0`, `(branch(x) as Continue).0` and `x` are the same index: how an Option is unwrapped is not part of the translation"""
    if not isinstance(d, tuple):
        return d
    if d and d[0] == "field" and len(d) == 3 and d[2] == "0" and isinstance(d[1], tuple) and d[1] and d[1][0] == "as" and d[1][-1] in ("Some", "Continue", "Ok"):
        return _unwrap_plumbing(d[1][1])
    if d and d[0] == "call" and ("Try" in str(d[1]) and str(d[1]).endswith("::branch")) and len(d[2]) == 1:
        return _unwrap_plumbing(d[2][0])
    return tuple(_unwrap_plumbing(x) for x in d)


def forwarded(prog, f):
    """(receiver descriptor, index descriptor) of every call that hands an index-derived value to an inner
    array accessor or to a checked accessor"""
    out = []
    for b, t in f.calls():
        if b not in f.live_blocks or f.is_cleanup(b):
            continue
        callee = t.get("res") or t.get("fn") or ""
        unres = t.get("fn") or ""
        if not (is_arr_accessor(callee) or is_arr_accessor(unres) or unres in CHECKED_ACCESSORS):
            continue
        if len(t["args"]) < 2:
            continue
        recv = strip(f.desc_op(t["args"][0]))
        idx = _unwrap_plumbing(strip(f.desc_op(t["args"][1])))
        if not contains(idx, lambda x: x == ("param", 2)):
            continue
        out.append((recv, idx))
    return out


def check_siblings(prog, impls):
    """Engler-style sibling cross-check: get / get_lazy / get_cheap of one view must translate the index
    identically whenever they forward to the same inner storage."""
    obs = []
    by_impl = {}
    for f in impls:
        by_impl.setdefault(f.parent, {})[f.path.rsplit("::", 1)[1]] = f
    for impl, ms in sorted(by_impl.items()):
        tname = short_path(next(iter(ms.values())).self_ty)
        maps = {}
        for m, f in ms.items():
            fw = forwarded(prog, f)
            # methods that never forward (e.g. get_cheap returning None) are not compared
            if fw:
                maps[m] = {}
                for recv, idx in fw:
                    if recv == ("param", 1):
                        continue  # sibling call on self
                    maps[m].setdefault(recv, set()).add(idx)
        ref_m = "get" if "get" in maps else (sorted(maps)[0] if maps else None)
        if ref_m is None or len(maps) < 2:
            continue
        for m in sorted(maps):
            if m == ref_m:
                continue
            key = "%s:siblings(%s~%s)" % (tname, ref_m, m)
            diffs = []
            for recv in set(maps[m]) & set(maps[ref_m]):
                if maps[m][recv] != maps[ref_m][recv]:
                    diffs.append("%s: %s passes %s, %s passes %s" % (
                        show(recv), ref_m, " / ".join(sorted(show(x) for x in maps[ref_m][recv])),
                        m, " / ".join(sorted(show(x) for x in maps[m][recv]))))
            st = site(ms[m])
            if diffs:
                obs.append(bad(RULE, key, st, "sibling accessors of %s translate the index differently: %s" % (tname, "; ".join(diffs))))
            else:
                obs.append(ok(RULE, key, st, "same index translation for every shared inner receiver", nontrivial=bool(set(maps[m]) & set(maps[ref_m]))))
    return obs


def check_is_empty(prog):
    """an impl that overrides is_empty() must compute `len() == 0` (the default does)"""
    obs = []
    n = 0
    for f in sorted(prog.fns.values(), key=lambda f: f.path):
        if f.impl_trait != TRAIT or not f.path.endswith("::is_empty"):
            continue
        n += 1
        tname = short_path(f.self_ty)
        key = "%s:is_empty" % tname
        lens = len_descs(prog, f)
        r = strip(f.desc_local(0)) if len(f.returns()) == 1 else None
        good = False
        why = "is_empty() returns %s" % (show(r) if r else "a path-dependent value")
        if r and r[0] == "bin" and r[1] == "Eq" and r[3] == ("const", 0):
            if is_len_of_self(r[2], lens, f.parent):
                good = True
            # forwarding view: inner.is_empty() handled below
        if r and r[0] == "call" and r[1].endswith("::is_empty") and len(r[2]) == 1:
            # forwards to the inner array's is_empty: fine iff len() forwards to the same inner len()
            if lens["ret"] and lens["ret"][0] == "call" and lens["ret"][1].endswith("::len") and lens["ret"][2] == r[2]:
                good = True
        if good:
            obs.append(ok(RULE, key, site(f), "is_empty() is `len() == 0` (or forwards like len())"))
        else:
            obs.append(bad(RULE, key, site(f), "%s overrides is_empty() but does not compute `self.len() == 0`: %s; consumers "
                           "(ArrValue::extended, flattenArrays, manifesters) would disagree with len()" % (tname, why)))
    return obs


def run_cheap(prog):
    """`is_cheap()` promises that get_cheap() answers every index; a view that forwards get_cheap to inner arrays can promise that
    only if *all* of them do: wherever is_cheap can return true, is_cheap() of every inner ArrValue field is known to be true."""
    obs = []
    AV = "jrsonnet_evaluator::arr::ArrValue"
    fields_of = {}
    for unit, a in prog.adts():
        fs = [fl["name"] for v in a.get("variants", []) for fl in v.get("fields", []) if fl.get("ty") == AV]
        if fs:
            fields_of[a["path"]] = fs
    n = 0
    for p, f in sorted(prog.fns.items()):
        if f.kind == "Closure" or not f.impl_trait or not f.impl_trait.endswith("arr::spec::ArrayLike") or not p.endswith("::is_cheap"):
            continue
        inner = fields_of.get(f.self_ty)
        if not inner:
            continue
        n += 1
        key = "%s:is_cheap:conjunction" % short_path(f.self_ty)

        def known_true(b):
            out = set()
            for u, v, (d, val) in f.facts_at(b):
                sd = strip(d)
                if val is True and sd[0] == "call" and str(sd[1]).endswith("ArrValue::is_cheap") and sd[2]:
                    a = strip(sd[2][0])
                    while a[0] in ("ref", "deref"):
                        a = a[1]
                    if a[0] == "field":
                        out.add(a[2])
            return out

        problems = []
        for b in sorted(f.live_blocks):
            if f.is_cleanup(b):
                continue
            for s in f.stmts(b):
                if s[0] == "a" and s[1] == [0] and s[2][0] == "use" and s[2][1][0] == "c" and s[2][1][2] in (1, True):
                    miss = [x for x in inner if x not in known_true(b)]
                    if miss:
                        problems.append("returns true without knowing that %s is cheap" % ", ".join("self." + x for x in miss))
            t = f.term(b)
            if isinstance(t, dict) and t["k"] == "call" and t["dest"] == [0] and (t.get("res") or t.get("fn") or "").endswith("ArrValue::is_cheap"):
                a = strip(f.desc_op(t["args"][0]))
                while a[0] in ("ref", "deref"):
                    a = a[1]
                this = a[2] if a[0] == "field" else None
                miss = [x for x in inner if x != this and x not in known_true(b)]
                if miss:
                    problems.append("returns self.%s.is_cheap() without knowing that %s is cheap" % (this, ", ".join("self." + x for x in miss)))
        if problems:
            obs.append(bad(RULE, key, site(f), "%s::is_cheap %s: get_cheap() of the other part returns None and the eager-copy paths that rely on is_cheap() panic"
                           % (short_path(f.self_ty), "; ".join(sorted(set(problems))))))
        else:
            obs.append(ok(RULE, key, site(f), "is_cheap() is true only if every inner array (%s) is cheap" % ", ".join(inner)))
    return obs, [Floor(RULE, "views with inner arrays", n, 3)], {}
