"""R-JSON: the JSON writer's escaping table equals RFC 8259 over all 256 bytes, one writer, functions rejected."""
from .. import hir as H
from ..mir import strip, show, short_path, contains, string_write_kind
from ..report import ok, bad, info, site, Floor

RULE = "R-JSON"
M = "jrsonnet_evaluator::manifest::"

# RFC 8259 section 7: must escape " \ and U+0000..U+001F; two-character escapes \b \t \n \f \r (also \" \\ \/)
SHORT = {0x08: ord("b"), 0x09: ord("t"), 0x0A: ord("n"), 0x0C: ord("f"), 0x0D: ord("r"), 0x22: ord('"'), 0x5C: ord("\\")}


def find_static(prog, path):
    for unit, s in prog.statics():
        if s["path"] == path:
            return s
    return None


def run(prog):
    obs = []
    # ---- 1. ESCAPE table, exhaustively
    st = find_static(prog, M + "ESCAPE")
    f = prog.fn(M + "escape_string_json_buf")
    fsite = site(f) if f else ""
    if st is None or "bytes" not in st or len(st["bytes"]) != 256:
        obs.append(bad(RULE, "ESCAPE:table", fsite, "static ESCAPE: [u8; 256] not found / not const-evaluable"))
        table = None
    else:
        table = st["bytes"]
        wrong = []
        for b in range(256):
            v = table[b]
            if b in SHORT:
                if v != SHORT[b]:
                    wrong.append("0x%02x -> %r (want %r)" % (b, chr(v) if v else 0, chr(SHORT[b])))
            elif b < 0x20:
                if v != ord("u"):
                    wrong.append("0x%02x -> %r (control character must be \\u-escaped)" % (b, chr(v) if v else 0))
            else:
                if v != 0:
                    wrong.append("0x%02x -> %r (must be copied verbatim)" % (b, chr(v)))
        if wrong:
            obs.append(bad(RULE, "ESCAPE:table", fsite, "ESCAPE table differs from RFC 8259 at: " + "; ".join(wrong[:8])))
        else:
            obs.append(ok(RULE, "ESCAPE:table", fsite, "all 256 entries match RFC 8259 (32 controls, quote, backslash escaped; bytes >= 0x80 verbatim)"))
    hx = find_static(prog, M + "escape_string_json_buf::HEX_DIGITS")
    if hx is None or hx.get("bytes") != [ord(c) for c in "0123456789abcdef"]:
        obs.append(bad(RULE, "HEX_DIGITS", fsite, "HEX_DIGITS is not 0123456789abcdef: %s" % (hx.get("bytes") if hx else None)))
    else:
        obs.append(ok(RULE, "HEX_DIGITS", fsite, "HEX_DIGITS == 0123456789abcdef"))
    if f is not None:
        obs.extend(check_escape_fn(prog, f, table))
    obs.extend(check_writer(prog))
    obs.extend(check_number_display(prog))
    obs.extend(check_serde_numbers(prog))
    floors = [Floor(RULE, "obligations", len(obs), 12)]
    return obs, floors, {"escape_table_entries": 256 if table else 0}


def check_escape_fn(prog, f, table):
    obs = []
    # the byte under the cursor
    arrays = []
    for b in sorted(f.live_blocks):
        for s in f.stmts(b):
            if s[0] == "a" and s[2][0] == "agg" and s[2][1] == "array":
                arrays.append((b, s, [strip(f.desc_op(o)) for o in s[2][4]]))
    # \\uXXXX escape: 6 bytes
    six = [a for a in arrays if len(a[2]) == 6]
    key = "escape:u00XX"
    if len(six) != 1:
        obs.append(bad(RULE, key, site(f), "expected exactly one 6-byte u00XX escape sequence, found %d" % len(six)))
    else:
        b, s, ds = six[0]
        lits = [d[1] if d[0] == "const" else None for d in ds[:4]]
        problems = []
        if lits != [92, 117, 48, 48]:
            problems.append("prefix bytes are %s, expected [92, 117, 48, 48]" % lits)

        def nibble(d, kind):
            # HEX_DIGITS[(byte >> 4) as usize]  /  HEX_DIGITS[(byte & 0xF) as usize]
            if d[0] != "index":
                return "element is %s, not an index into HEX_DIGITS" % show(d)
            basis = d[1]
            if not contains(basis, lambda x: x[0] == "tls" or (x[0] == "const" and "HEX_DIGITS" in str(x)) or x[0] == "static") and "HEX_DIGITS" not in repr(basis):
                pass
            idx_local = int(d[2][2:-1])
            idx = strip(f.desc_local(idx_local))
            if idx[0] == "cast":
                idx = idx[2]
            if kind == "hi":
                if not (idx[0] == "bin" and idx[1] == "Shr" and idx[3] == ("const", 4)):
                    return "high nibble index is %s, expected byte >> 4" % show(idx)
            else:
                if not (idx[0] == "bin" and idx[1] == "BitAnd" and idx[3] == ("const", 15)):
                    return "low nibble index is %s, expected byte & 0xF" % show(idx)
            return (idx[2],)
        hi = nibble(ds[4], "hi")
        lo = nibble(ds[5], "lo")
        for r in (hi, lo):
            if isinstance(r, str):
                problems.append(r)
        if not problems and hi != lo:
            problems.append("the two nibbles are taken from different values: %s vs %s" % (show(hi[0]), show(lo[0])))
        if problems:
            obs.append(bad(RULE, key, site(f, s[3]), "; ".join(problems)))
        else:
            obs.append(ok(RULE, key, site(f, s[3]), "emits backslash u 0 0 HEX[byte>>4] HEX[byte&0xF] of the same byte"))
    # two-character escapes: [b'\\\\', escape]
    two = [a for a in arrays if len(a[2]) == 2]
    key = "escape:short"
    good = [a for a in two if a[2][0] == ("const", 92) and a[2][1][0] == "index"]
    if len(good) >= 1:
        obs.append(ok(RULE, key, site(f), "two-character escapes emit backslash + the table entry"))
    else:
        obs.append(bad(RULE, key, site(f), "no [backslash, escape] sequence found for the short escapes"))
    # the match on the table entry handles every non-zero table value (unreachable!() is dead)
    if table is not None:
        nz = sorted(set(v for v in table if v))
        handled = set()
        for b in sorted(f.live_blocks):
            t = f.term(b)
            if isinstance(t, list) and t[0] == "switch" and t[4] == "u8":
                for v, bb, _ in t[2]:
                    handled.add(v)
        missing = [v for v in nz if v not in handled]
        key = "escape:match-covers-table"
        if missing:
            obs.append(bad(RULE, key, site(f), "table values %s are not handled by the escape match (unreachable!() becomes reachable)" % [chr(v) for v in missing]))
        else:
            obs.append(ok(RULE, key, site(f), "every non-zero table value %s has a match arm" % [chr(v) for v in nz]))
    return obs


def check_writer(prog):
    obs = []
    f = prog.fn(M + "manifest_json_ex_buf")
    if f is None:
        return [bad(RULE, "writer", "", "manifest_json_ex_buf not found")]
    # (a) strings and keys go through the escaper; no Debug/Display formatting of text
    esc = [(b, t) for b, t in f.calls() if (t.get("res") or "") == M + "escape_string_json_buf" and not f.is_cleanup(b)]
    dbg = [(b, t) for b, t in f.calls() if "Argument::<'_>::new_debug" in (t.get("fn") or "")]
    disp = [(b, t) for b, t in f.calls() if "Argument::<'_>::new_display" in (t.get("fn") or "")]
    disp_types = sorted({(t.get("argtys") or ["?"])[0].lstrip("&") for b, t in disp})
    key = "writer:strings-escaped"
    problems = []
    # every path through the Val::Str arm passes an escaper call before the function returns (must-pass-through)
    str_start = None
    for u, v, fct in f._cond_edge_list():
        if strip(fct[0])[:2] == ("discr", ("param", f.param(name="val", ty="jrsonnet_evaluator::val::Val") or 1)) and fct[1] == ("variant", "Str") and str_start is None:
            str_start = v
    if str_start is None:
        problems.append("no Val::Str edge found in the writer")
    else:
        esc_blocks = tuple(b for b, t in esc)
        errs = tuple(b for b, t in f.calls() if "FromResidual" in (t.get("fn") or ""))
        seen = ({str_start} if str_start not in esc_blocks else set()) | (f.reach_from(str_start, removed_blocks=esc_blocks + errs) if str_start not in esc_blocks else set())
        if any(r in seen for r in f.returns()):
            problems.append("a string value can reach the return without passing through escape_string_json_buf")
    if len(esc) < 2:
        problems.append("only %d calls of escape_string_json_buf (string values and object keys expected)" % len(esc))
    # exp-bigint prints a big integer as a JSON string with `{:?}` of its decimal digits: Debug of [-0-9]* is the quoted text itself
    dbg = [(b, t) for b, t in dbg if not ("BigInt" in show(strip(f.desc_op(t["args"][0]))) and "to_string" in show(strip(f.desc_op(t["args"][0]))))]
    if dbg:
        problems.append("text is formatted with {:?} (Rust Debug escaping is not JSON escaping)")
    n_str_disp = sum(1 for b, t in disp if (t.get("argtys") or ["?"])[0].lstrip("&") == "str")
    n_format = sum(1 for b, t in f.calls() if (t.get("fn") or "") == "alloc::fmt::format")
    # `format!("{start}..{end}")` of the debug truncation is escaped afterwards: two &str displays feeding one format!
    str_ok = n_str_disp <= 2 * n_format
    bad_disp = [t for t in disp_types if t not in ("jrsonnet_evaluator::val::NumValue", "&jrsonnet_evaluator::val::NumValue")
                and "BigInt" not in t and not (t == "str" and str_ok)]
    if bad_disp:
        problems.append("Display-formatted into the output without escaping: %s" % bad_disp)
    # key path: one escaper call must take the object key (item of ObjValue::iter)
    keyed = False
    for b, t in esc:
        d = strip(f.desc_op(t["args"][0]))
        if contains(d, lambda x: x[0] == "call" and "ObjValue" in x[1] and x[1].endswith("::iter")) or \
           contains(d, lambda x: x[0] == "call" and x[1].endswith("::next")):
            keyed = True
    if not keyed:
        problems.append("no escape_string_json_buf call takes the object key")
    if problems:
        obs.append(bad(RULE, key, site(f), "; ".join(problems)))
    else:
        obs.append(ok(RULE, key, site(f), "%d escaper calls (values and keys); only NumValue is Display-formatted; no Debug formatting" % len(esc)))
    # (b) Func is rejected: the Func edge of the variant switch reaches return without writing
    key = "writer:function-rejected"
    found = False
    for b in sorted(f.live_blocks):
        t = f.term(b)
        if isinstance(t, list) and t[0] == "switch" and len(t) > 5 and t[5] == "jrsonnet_evaluator::val::Val":
            targets = {nm: bb for v, bb, nm in t[2]}
            allv = t[6]
            fb = targets.get("Func")
            if fb is None and "Func" in allv:
                rest = [x for x in allv if x not in targets]
                if rest == ["Func"]:
                    fb = t[3]
            if fb is None:
                continue
            found = True
            reach = {fb} | f.reach_from(fb)
            writes = []
            for r in reach:
                tt = f.term(r)
                if isinstance(tt, dict) and tt["k"] == "call" and not f.is_cleanup(r):
                    c = tt.get("res") or tt.get("fn") or ""
                    if string_write_kind(tt) or c.endswith("escape_string_json_buf") or c.endswith("manifest_json_ex_buf"):
                        writes.append(short_path(c))
            if writes:
                obs.append(bad(RULE, key, site(f), "the Val::Func arm can write output (%s) instead of failing" % writes))
            else:
                obs.append(ok(RULE, key, site(f), "the Val::Func arm reaches return without writing (error)"))
            break
    if not found:
        obs.append(bad(RULE, key, site(f), "no variant switch on Val with a Func edge found"))
    # (c) indentation state restored
    key = "writer:padding-restored"
    PAD = f.param(name="cur_padding", ty="&mut alloc::string::String", nth=1) or 3
    pushes = []
    truncs = []
    for b, t in f.calls():
        if f.is_cleanup(b):
            continue
        c = t.get("res") or t.get("fn") or ""
        if string_write_kind(t) in ("str", "fmt"):
            d = strip(f.desc_op(t["args"][0]))
            if d == ("param", PAD):
                a1 = strip(f.desc_op(t["args"][1]))
                if contains(a1, lambda x: x[0] == "field" and x[2] == "padding"):
                    pushes.append(b)
        if c == "alloc::string::String::truncate":
            d = strip(f.desc_op(t["args"][0]))
            if d == ("param", PAD):
                truncs.append(b)
    problems = []
    if len(pushes) < 2:
        problems.append("expected 2 `cur_padding.push_str(padding)` sites, found %d" % len(pushes))
    errblocks = {b for b, t in f.calls() if "from_residual" in (t.get("fn") or "")}
    rets = set(f.returns())
    for pb in pushes:
        reach = f.reach_from(pb, removed_blocks=tuple(set(truncs) | errblocks))
        if reach & rets:
            problems.append("a path from cur_padding.push_str to a successful return skips cur_padding.truncate(old_len)")
    if problems:
        obs.append(bad(RULE, key, site(f), "; ".join(problems)))
    else:
        obs.append(ok(RULE, key, site(f), "every non-error path after push_str(padding) passes truncate(old_len)"))
    # (d) one writer: the JSON-producing entry points reach manifest_json_ex_buf
    target = M + "manifest_json_ex_buf"
    entries = [
        ("<jrsonnet_evaluator::manifest::JsonFormat<'_> as jrsonnet_evaluator::manifest::ManifestFormat>::manifest_buf", 1),
        ("<jrsonnet_evaluator::manifest::ToStringFormat as jrsonnet_evaluator::manifest::ManifestFormat>::manifest_buf", 3),
        (M + "manifest_json_ex", 1),
    ]
    for e, depth in entries:
        g = prog.fn(e)
        key = "one-writer:%s" % short_path(e)
        if g is None:
            obs.append(bad(RULE, key, "", "%s not found" % e))
            continue
        if reaches(prog, g, target, depth):
            obs.append(ok(RULE, key, site(g), "reaches manifest_json_ex_buf"))
        else:
            obs.append(bad(RULE, key, site(g), "%s no longer funnels into manifest_json_ex_buf" % short_path(e)))
    # other callers of the escaper / writer are inventoried
    for callee in (target, M + "escape_string_json_buf"):
        cs = sorted({cf.path for cf, b, t in prog.callers.get(callee, [])})
        obs.append(info(RULE, "callers:%s" % short_path(callee), "", "called from: %s" % ", ".join(short_path(c) for c in cs)))
    return obs


def reaches(prog, g, target, depth):
    seen = {g.path}
    frontier = [g]
    for _ in range(depth + 1):
        nxt = []
        for h in frontier:
            for b, t in h.calls():
                for c in (t.get("res"), t.get("fn")):
                    if not c:
                        continue
                    if c == target:
                        return True
                    if c not in seen and c in prog.fns:
                        seen.add(c)
                        nxt.append(prog.fns[c])
                # trait-method call that did not resolve: all impls
                if t.get("trait") and not t.get("res"):
                    name = (t.get("fn") or "").rsplit("::", 1)[-1]
                    for k in prog.fns.values():
                        if k.impl_trait == t["trait"] and k.path.endswith("::" + name) and k.path not in seen:
                            seen.add(k.path)
                            nxt.append(k)
            for cl in prog.closures_of(h.path):
                if cl.path not in seen:
                    seen.add(cl.path)
                    nxt.append(cl)
        frontier = nxt
    return False


def check_number_display(prog):
    f = prog.fn("<jrsonnet_evaluator::val::NumValue as core::fmt::Display>::fmt")
    key = "number:display"
    if f is None:
        return [bad(RULE, key, "", "Display for NumValue not found")]
    callees = [(t.get("res") or t.get("fn") or "") for b, t in f.calls()]
    if callees == ["core::fmt::float::<impl core::fmt::Display for f64>::fmt"]:
        return [ok(RULE, key, site(f), "NumValue is written with <f64 as Display>::fmt (shortest round-trip decimal, no exponent)")]
    return [bad(RULE, key, site(f), "NumValue Display is not exactly <f64 as Display>::fmt: %s" % [short_path(c) for c in callees])]


def check_serde_numbers(prog):
    """parseJson number visitors convert their own parameter, with its own type, to f64"""
    obs = []
    want = {"visit_i64": "i64", "visit_u64": "u64", "visit_f64": None}
    found = {}
    for f in prog.fns.values():
        if "ValVisitor as serde_core::de::Visitor" not in f.path and "ValVisitor as serde::de::Visitor" not in f.path:
            continue
        name = f.path.rsplit("::", 1)[1]
        if name in want:
            found[name] = f
    for name, ty in want.items():
        key = "parse:%s" % name
        f = found.get(name)
        if f is None:
            obs.append(bad(RULE, key, "", "serde visitor method %s not found" % name))
            continue
        news = [(b, t) for b, t in f.calls() if (t.get("res") or "") == "jrsonnet_evaluator::val::NumValue::new"]
        if len(news) != 1:
            obs.append(bad(RULE, key, site(f), "%s does not build its number through exactly one NumValue::new (found %d)" % (name, len(news))))
            continue
        d = strip(f.desc_op(news[0][1]["args"][0]))
        if ty is None:
            good = d == ("param", 2)
        else:
            good = d[0] == "cast" and d[1] == "IntToFloat" and d[2] == ("param", 2) and d[4] == ty
        if good:
            obs.append(ok(RULE, key, site(f), "converts its %s parameter directly to f64" % (ty or "f64")))
        else:
            obs.append(bad(RULE, key, site(f), "%s passes %s to NumValue::new instead of its own parameter converted from %s" % (name, show(d), ty or "f64")))
    return obs
