"""R-LOOKUP: the object layer walkers implement one protocol (sibling cross-check), the cores honour omit_only,
every ObjValueInner starts with an empty cache and assertions_ran = !has_assertions."""
from .. import hir as H
from ..mir import strip, show, short_path, contains
from ..report import ok, bad, info, site, Floor

RULE = "R-LOOKUP"
OBJ = "jrsonnet_evaluator::obj::"

WALKERS = [
    ("has_field_include_hidden_idx", "has_field_include_hidden_core", ("Exists",)),
    ("get_idx_uncached", "get_for_core", ("Final", "SuperPlus")),
    ("field_visibility_idx", "field_visibility_core", ("Found",)),
]


# name of the walker's removal counter (a local of type Saturating<usize>); found by type per walker, `skip` on the reference tree
SK = ["skip"]


def counter_name(h):
    names = []
    for l in H.nodes(h["body"], "let"):
        pat = l[1]
        if H.tag(pat) == "bind" and "Saturating<usize>" in str(pat[2]) and l[2] is not None and H.tag(l[2]) == "call" \
                and H.call_args(l[2]) and H.tag(H.call_args(l[2])[0]) == "lit" and H.call_args(l[2])[0][2] == 0:
            names.append(pat[1])
    return names[0] if len(names) == 1 else "skip"


def is_skip_zero(c):
    """`skip.0 == 0`"""
    return H.tag(c) == "binary" and c[1] == "==" and H.tag(c[2]) == "field" and H.local_name(c[2][1]) == SK[0] \
        and H.tag(c[3]) == "lit" and c[3][2] == 0


def effects_outside_guard(n, guarded=False, out=None):
    """return / break / assignment / push nodes not nested under `if skip.0 == 0`"""
    if out is None:
        out = []
    if not isinstance(n, list):
        return out
    t = H.tag(n)
    if t == "if" and is_skip_zero(n[1]):
        effects_outside_guard(n[2], True, out)
        if n[3] is not None:
            effects_outside_guard(n[3], guarded, out)
        return out
    if t == "closure":
        return out
    if not guarded:
        if t in ("ret", "break", "assign", "assignop"):
            out.append(t)
        if t == "mcall" and n[1].endswith(("::push", "::insert")):
            out.append("push")
    for x in n:
        if isinstance(x, list):
            effects_outside_guard(x, guarded, out)
    return out


def unguarded_effects(f, corecall, variant):
    """effects (return from the loop, store to a user variable other than `skip`, push/insert) in blocks that are only reached with
    the core outcome `variant`, and where the canonical fact skip.0 == 0 does not hold; None if the variant edge is not found"""
    from ..mir import rel_fact
    found = False
    out = []
    for b in sorted(f.live_blocks):
        if f.is_cleanup(b):
            continue
        facts = f.facts_at(b)
        in_arm = False
        zero = False
        for u, v, (d, val) in facts:
            sd = strip(d)
            if sd[0] == "discr" and isinstance(val, tuple) and val[0] == "variant" and val[1] == variant \
                    and contains(sd, lambda x: x[0] == "call" and str(x[1]).endswith("::" + corecall)):
                in_arm = True
            r = rel_fact(d, val)
            if r and r[0] == "Eq" and r[2][:2] == ("const", 0) and contains(r[1], lambda x: x[0] == "var" and f.varnames.get(x[1]) == SK[0]):
                zero = True
        if not in_arm:
            continue
        found = True
        if zero:
            continue
        for s in f.stmts(b):
            if s[0] != "a":
                continue
            tgt = s[1][0]
            if s[1] == [0]:
                out.append("return")
            elif len(s[1]) == 1 and f.varnames.get(tgt) and f.varnames.get(tgt) != SK[0] and len(f.defs.get(tgt, [])) > 1 \
                    and s[2][0] == "use" and s[2][1][0] == "c":
                out.append("%s = .." % f.varnames.get(tgt))
        t = f.term(b)
        if isinstance(t, dict) and t["k"] == "call" and (t.get("fn") or "").endswith(("::push", "::insert")):
            out.append("push")
    return out if found else None


def run(prog):
    obs = []
    for wname, corecall, positives in WALKERS:
        obs.extend(check_walker(prog, wname, corecall, positives))
    obs.extend(check_cores(prog))
    obs.extend(check_constructors(prog))
    obs.extend(check_super_assertions(prog))
    obs.extend(check_wiring(prog))
    floors = [Floor(RULE, "walkers", len(WALKERS), 3), Floor(RULE, "obligations", len(obs), 20)]
    return obs, floors, {"walkers": [w[0] for w in WALKERS]}



def omit_keeps_max(body, n):
    """does the Omit(n) arm set its counter to max(counter, n + 1)?  Accepted spellings: `c = c.max(X)`, `c = X.max(c)`,
    `c = max(c, X)`, `if X > c { c = X }` (also `c < X`, `>=`, `<=`), where X is `n + Saturating(1)` written inline or bound to
    a local first; the counter is whichever local is assigned"""
    lets = {}
    for l in H.nodes(body, "let"):
        if H.tag(l[1]) == "bind" and l[2] is not None:
            lets[l[1][1]] = l[2]

    def res(e):
        nm = H.local_name(e)
        k = 0
        while nm in lets and k < 4:
            e = lets[nm]
            nm = H.local_name(e)
            k += 1
        return e

    def is_one(e):
        return H.tag(e) == "call" and H.call_args(e) and H.tag(H.call_args(e)[0]) == "lit" and H.call_args(e)[0][2] == 1

    def is_x(e):
        e = res(e)
        if H.tag(e) != "binary" or e[1] != "+":
            return False
        a, b = e[2], e[3]
        return ([H.local_name(a)] == n and is_one(b)) or ([H.local_name(b)] == n and is_one(a))

    for a in H.nodes(body, "assign"):
        c = H.local_name(a[1])
        if not c:
            continue
        rhs = a[2]
        if H.tag(rhs) == "mcall" and str(rhs[1]).endswith("::max") and rhs[3]:
            r, x = rhs[2], rhs[3][0]
            if (H.local_name(r) == c and is_x(x)) or (H.local_name(x) == c and is_x(r)):
                return True
        if H.tag(rhs) == "call" and str(H.callee(rhs) or "").endswith("::max") and len(H.call_args(rhs)) == 2:
            r, x = H.call_args(rhs)
            if (H.local_name(r) == c and is_x(x)) or (H.local_name(x) == c and is_x(r)):
                return True
    for i in H.nodes(body, "if"):
        cond, then, els = i[1], i[2], (i[3] if len(i) > 3 else None)
        if H.tag(cond) != "binary" or cond[1] not in (">", ">=", "<", "<=") or els is not None:
            continue
        big, small = (cond[2], cond[3]) if cond[1] in (">", ">=") else (cond[3], cond[2])
        c = H.local_name(small)
        if not c or not is_x(big):
            continue
        for a in H.nodes(then, "assign"):
            if H.local_name(a[1]) == c and is_x(a[2]):
                return True
    return False

def check_walker(prog, wname, corecall, positives):
    obs = []
    path = OBJ + "ObjValue::" + wname
    h = prog.hir.get(path)
    f = prog.fn(path)
    SK[0] = counter_name(h) if h is not None else "skip"
    if h is None:
        return [bad(RULE, "%s:anchor" % wname, "", "walker %s not found" % path)]
    st = site(f)
    loops = []
    for it, pat, body in H.for_loops(h["body"]):
        if any(True for _ in H.calls(body, suffix="::" + corecall)):
            loops.append((it, pat, body))
    if len(loops) != 1:
        return [bad(RULE, "%s:loop" % wname, st, "expected one layer loop calling %s, found %d" % (corecall, len(loops)))]
    it, pat, body = loops[0]
    # L1: right to left over cores[..idx]
    rev = any(True for _ in H.calls(it, path="core::iter::traits::iterator::Iterator::rev"))
    ranged = any(H.tag(x) == "structlit" and x[1][-1].endswith("RangeTo") for x in H.walk(it))
    cores = any(H.tag(x) == "field" and x[2] == "cores" for x in H.walk(it))
    if rev and ranged and cores:
        obs.append(ok(RULE, "%s:order" % wname, st, "iterates cores[..idx] right to left"))
    else:
        obs.append(bad(RULE, "%s:order" % wname, st, "layer loop does not iterate `cores[..idx].iter().rev()` (rev=%s, bounded=%s, cores=%s): "
                       "the right-most defining layer must win and layers at or above idx must be invisible" % (rev, ranged, cores)))
    # the match on the core outcome
    m = None
    for x in H.matches(body):
        vs = [v for a in x[2] for v in H.pat_variants(a[0])]
        if any(v.endswith("::Omit") for v in vs):
            m = x
            break
    if m is None:
        obs.append(bad(RULE, "%s:match" % wname, st, "no match with an Omit arm on the core outcome"))
        return obs
    seen_pos = set()
    for arm in m[2]:
        vs = [v.rsplit("::", 1)[1] for v in H.pat_variants(arm[0])]
        if not vs:
            continue
        v = vs[0]
        if v == "Omit":
            # skip = skip.max(new_skip + Saturating(1)), in any spelling that keeps the maximum
            n = [b[0] for b in H.pat_binds(arm[0])]
            good = omit_keeps_max(arm[2], n)
            if good:
                obs.append(ok(RULE, "%s:omit" % wname, st, "Omit(n) => skip = skip.max(n + 1)"))
            else:
                obs.append(bad(RULE, "%s:omit" % wname, st, "the Omit arm does not compute `skip = skip.max(new_skip + 1)`: a nested or earlier removal "
                               "would be forgotten (sibling walkers keep the maximum)"))
        elif v in positives:
            seen_pos.add(v)
    # positive outcomes act only under skip == 0 (MIR: however the test is spelled -- `if skip.0 == 0 {..}`, a match guard, an
    # earlier `Found(_) if skip.0 != 0 => {}` arm)
    for v in positives:
        key = "%s:guard:%s" % (wname, v)
        if v not in seen_pos:
            obs.append(bad(RULE, key, st, "no arm for outcome %s" % v))
            continue
        eff = unguarded_effects(f, corecall, v)
        if eff is None:
            obs.append(bad(RULE, key, st, "no edge for outcome %s of %s found in the compiled walker" % (v, corecall)))
        elif eff:
            obs.append(bad(RULE, key, st, "the %s outcome acts (%s) where `skip == 0` is not known: a layer masked by objectRemoveKey would be visible" % (v, ", ".join(sorted(set(eff))))))
        else:
            obs.append(ok(RULE, key, st, "%s is accepted only under skip == 0" % v))
    # L4: skip -= 1 once per layer, as the last statement of the loop body
    key = "%s:decrement" % wname
    last = None
    if H.tag(body) == "block":
        seq = list(body[1]) + ([body[2]] if body[2] is not None else [])
        last = seq[-1] if seq else None
    if H.tag(last) == "assignop" and last[1] in ("-", "-=") and H.local_name(last[2]) == SK[0] and H.tag(last[3]) == "lit" and last[3][2] == 1:
        n_dec = sum(1 for a in H.nodes(body, "assignop") if H.local_name(a[2]) == SK[0])
        if n_dec == 1:
            obs.append(ok(RULE, key, st, "skip -= 1 is the last statement of every iteration"))
        else:
            obs.append(bad(RULE, key, st, "skip is decremented %d times per layer" % n_dec))
    else:
        obs.append(bad(RULE, key, st, "the layer loop does not end with `skip -= 1`"))
    # L5 (get only): omit_only argument is `skip.0 != 0`
    if corecall == "get_for_core":
        key = "%s:omit_only" % wname
        good = False
        for c in H.calls(body, suffix="::get_for_core"):
            args = H.call_args(c)
            a = args[-1]
            if H.tag(a) == "binary" and a[1] == "!=" and H.tag(a[2]) == "field" and H.local_name(a[2][1]) == SK[0] and H.tag(a[3]) == "lit" and a[3][2] == 0:
                good = True
        obs.append(ok(RULE, key, st, "cores are asked with omit_only = (skip != 0)") if good else
                   bad(RULE, key, st, "get_for_core is not called with omit_only = (skip.0 != 0): masked layers would be evaluated"))
    return obs


def check_cores(prog):
    """non-omit cores answer NotFound under omit_only before touching any member"""
    obs = []
    n = 0
    for f in sorted(prog.fns.values(), key=lambda f: f.path):
        if f.impl_trait != OBJ + "ObjectCore" or not f.path.endswith("::get_for_core"):
            continue
        n += 1
        tname = short_path(f.self_ty)
        key = "%s::get_for_core:omit_only" % tname
        if tname.endswith("OmitFieldsCore"):
            obs.append(ok(RULE, key, site(f), "omit core: answers Omit regardless of omit_only", nontrivial=False))
            continue
        # param 4 = omit_only.  entry block must switch on it; on the true edge: no calls before return
        good = False
        why = "does not test omit_only first"
        t = f.term(0)
        if isinstance(t, list) and t[0] == "switch" and strip(f.desc_op(t[1])) == ("param", 4):
            tb = None
            for v, bb, _ in t[2]:
                if v == 0:
                    fb = bb
            # edges: arms list has [0 -> false block]; otherwise = true
            tb = t[3]
            region = {tb} | f.reach_from(tb)
            calls = [short_path(tt.get("res") or tt.get("fn") or "?") for b in region if not f.is_cleanup(b)
                     for tt in [f.term(b)] if isinstance(tt, dict) and tt["k"] == "call"]
            notfound = any(s[0] == "a" and s[2][0] == "agg" and s[2][3] == "NotFound" for b in region for s in f.stmts(b))
            if not calls and notfound:
                good = True
            else:
                why = "under omit_only it %s" % ("calls %s" % calls if calls else "does not answer NotFound")
        if good:
            obs.append(ok(RULE, key, site(f), "returns NotFound under omit_only without evaluating anything"))
        else:
            obs.append(bad(RULE, key, site(f), "%s::get_for_core %s: a field hidden behind objectRemoveKey would be evaluated (errors/traces become observable)" % (tname, why)))
    if n < 3:
        obs.append(bad(RULE, "cores:count", "", "expected 3 ObjectCore::get_for_core impls, found %d" % n))
    return obs


def check_super_assertions(prog):
    """an object built on top of another one inherits its obligation to run assertions: ObjValueBuilder::with_super ORs the super
    object's has_assertions into its own (extend_from is covered by the constructor check below)"""
    f = prog.fn(OBJ + "oop::ObjValueBuilder::with_super")
    key = "with_super:has_assertions"
    if f is None:
        return [bad(RULE, key, "", "ObjValueBuilder::with_super not found")]
    good = False
    for b in sorted(f.live_blocks):
        for s in f.stmts(b):
            if s[0] == "a" and len(s[1]) > 1 and str(s[1][-1]).endswith(":has_assertions"):
                d = strip(f.desc_rvalue(s[2]))
                if contains(d, lambda x: x[0] == "field" and x[2] == "has_assertions" and contains(x[1], lambda y: y[0] == "param" and y[1] == 2)):
                    good = True
    return [ok(RULE, key, site(f), "has_assertions |= super.has_assertions") if good else
            bad(RULE, key, site(f), "with_super does not take over the super object's has_assertions: assertions of lower layers are never run for objects "
                "built through the builder (`a { .. }`, std.objectRemoveKey), while `a + b` still runs them")]


def check_constructors(prog):
    obs = []
    sites = []
    for f in prog.fns.values():
        for b in sorted(f.live_blocks):
            for s in f.stmts(b):
                if s[0] == "a" and s[2][0] == "agg" and s[2][1] == "adt" and s[2][2] == OBJ + "ObjValueInner":
                    sites.append((f, b, s))
    for f, b, s in sorted(sites, key=lambda x: x[0].path):
        fields = s[2][5]
        vals = {fields[i]: strip(f.desc_op(s[2][4][i])) for i in range(len(fields))}
        key = "ObjValueInner@%s" % short_path(f.path)
        problems = []
        vc = vals.get("value_cache")
        if not (vc and vc[0] == "call" and vc[1].endswith("::default")):
            problems.append("value_cache is initialised with %s, not an empty map" % show(vc))
        ar = vals.get("assertions_ran")
        ha = vals.get("has_assertions")
        okar = False
        if ar and ar[0] == "call" and ar[1].endswith("Cell::<T>::new") and ar[2]:
            a = ar[2][0]
            if a[0] == "un" and a[1] == "Not" and a[2] == ha:
                okar = True
            if a[0] == "const" and a[1] in (1, True) and ha and ha[0] == "const" and ha[1] in (0, False):
                okar = True
        if not okar:
            problems.append("assertions_ran is %s, expected Cell::new(!has_assertions) with has_assertions = %s" % (show(ar), show(ha)))
        if problems:
            obs.append(bad(RULE, key, site(f, s[3]), "; ".join(problems)))
        else:
            obs.append(ok(RULE, key, site(f, s[3]), "fresh empty value_cache; assertions_ran = !has_assertions"))
    if len(sites) < 3:
        obs.append(bad(RULE, "ObjValueInner:sites", "", "expected 3 construction sites of ObjValueInner, found %d" % len(sites)))
    return obs


def calls_in(prog, path):
    f = prog.fn(path)
    if f is None:
        return None, []
    return f, [(t.get("res") or t.get("fn") or "") for b, t in f.calls() if not f.is_cleanup(b)]


def check_wiring(prog):
    """the public predicates are built from the walkers with the right include-hidden choice"""
    obs = []
    O = OBJ + "ObjValue::"
    # has_field_ex(name, include_hidden): true -> has_field_include_hidden, false -> has_field
    # (decided on MIR facts, so `if`, `match` on the bool and early returns are the same thing)
    f = prog.fn(O + "has_field_ex")
    key = "has_field_ex"
    good = False
    if f is not None:
        P = f.param(name="include_hidden", ty="bool") or 3

        def flag_at(b):
            for u, v, (d, val) in f.facts_at(b):
                sd = strip(d)
                while sd[0] in ("ref", "deref"):
                    sd = sd[1]
                if sd == ("param", P) or (sd[0] == "param" and sd[1] == P):
                    if val is True or val == ("eq", 1) or (isinstance(val, tuple) and val[0] == "ne" and list(val[1]) == [0]):
                        return True
                    if val is False or val == ("eq", 0) or (isinstance(val, tuple) and val[0] == "ne" and list(val[1]) == [1]):
                        return False
            return None
        seen = {}
        for b, t in f.calls():
            c = t.get("res") or t.get("fn") or ""
            if c in (O + "has_field_include_hidden", O + "has_field") and not f.is_cleanup(b):
                seen.setdefault(c, []).append(flag_at(b))
        good = seen.get(O + "has_field_include_hidden") == [True] and seen.get(O + "has_field") == [False]
    obs.append(ok(RULE, key, site(f), "include_hidden ? has_field_include_hidden : has_field") if good else
               bad(RULE, key, site(f) if f else "", "has_field_ex does not select has_field_include_hidden for include_hidden=true and has_field otherwise"))
    # has_field: visible iff field_visibility is Normal|Unhide
    h = prog.hir.get(O + "has_field")
    f = prog.fn(O + "has_field")
    key = "has_field"
    good = False
    if h:
        for m in H.matches(h["body"]):
            truth = {}
            for arm in m[2]:
                val = H.lit_value(arm[2])
                for v in H.pat_variants_deep(arm[0]):
                    truth[v.rsplit("::", 1)[1]] = val
            if truth.get("Normal") is True and truth.get("Unhide") is True and truth.get("Hidden") is False and truth.get("None") is False:
                good = True
    obs.append(ok(RULE, key, site(f), "Normal|Unhide => true, Hidden|None => false") if good else
               bad(RULE, key, site(f) if f else "", "has_field does not map visibility Normal|Unhide to true and Hidden|absent to false"))
    # `in` operator and std.objectHasAll use include-hidden lookup; equals compares visible field lists
    f, cs = calls_in(prog, "jrsonnet_evaluator::val::equals")
    key = "equals:fields"
    if f is not None:
        nfields = sum(1 for c in cs if c == O + "fields")
        if nfields >= 2 and not any(c == O + "len" for c in cs):
            obs.append(ok(RULE, key, site(f), "object equality compares the two visible field-name lists"))
        else:
            obs.append(bad(RULE, key, site(f), "object equality does not compare a.fields() with b.fields() (found %d fields() calls)" % nfields))
    # a + b on objects: v2.extend_from(v1)
    h = prog.hir.get("jrsonnet_evaluator::evaluate::operator::evaluate_add_op")
    f = prog.fn("jrsonnet_evaluator::evaluate::operator::evaluate_add_op")
    key = "add:Obj"
    good = False
    if h:
        for m in H.matches(h["body"]):
            for arm in m[2]:
                p = arm[0]
                if H.tag(p) == "tup" and len(p[1]) == 2 and H.pat_variants(p[1][0]) == ["jrsonnet_evaluator::val::Val::Obj"] == H.pat_variants(p[1][1]):
                    na = [b[0] for b in H.pat_binds(p[1][0])]
                    nb = [b[0] for b in H.pat_binds(p[1][1])]
                    for c in H.calls(arm[2], path=O + "extend_from"):
                        a = H.call_args(c)
                        if [H.expr_source_name(a[0])] == nb and [H.expr_source_name(a[1])] == na:
                            good = True
    obs.append(ok(RULE, key, site(f), "a + b = b.extend_from(a): right operand's layers last") if good else
               bad(RULE, key, site(f) if f else "", "object addition is not `right.extend_from(left)`"))
    # extend_from: sup cores first, then self cores
    f = prog.fn(O + "extend_from")
    key = "extend_from:order"
    if f is not None:
        # appends to the new layer list: `extend(x.cores.iter().cloned())` or a push loop over x.cores
        ev = []
        for b, t in f.calls():
            fn = t.get("fn") or ""
            if f.is_cleanup(b) or not (fn.endswith("Extend::extend") or fn.endswith("Vec::<T, A>::push")) or len(t["args"]) < 2:
                continue
            d = strip(f.desc_op(t["args"][1]))
            from_cores = lambda p_: contains(d, lambda x: x[0] == "field" and x[2] == "cores" and contains(x[1], lambda y: y[:2] == ("param", p_)))
            if from_cores(2):
                ev.append((b, "sup"))
            elif from_cores(1):
                ev.append((b, "self"))
        sups = [b for b, w in ev if w == "sup"]
        selfs = [b for b, w in ev if w == "self"]
        good = bool(sups) and bool(selfs) and all(any(x in f.reach_from(y) for y in sups) for x in selfs) \
            and not any(y in f.reach_from(x) for x in selfs for y in sups)
        if good:
            obs.append(ok(RULE, key, site(f), "cores = sup.cores ++ self.cores"))
        else:
            obs.append(bad(RULE, key, site(f), "extend_from does not append sup's layers first and self's layers after them (appends seen: %s)" % [w for b, w in ev]))
    return obs
