"""R-FMTTOK (C19): every token that the grammar (jsonnet.ungram) makes mandatory in a node is written by the printer on every
path through that node's print code (must-pass-through over MIR)."""
import os
import re

from ..mir import strip, show, short_path
from ..report import ok, bad, info, site, Floor
from .. import facts

RULE = "R-FMTTOK"
N = "jrsonnet_rowan_parser::generated::nodes::"
P = "jrsonnet_formatter::Printable"


def parse_ungram(text):
    text = re.sub(r"//[^\n]*", "", text)
    toks = re.findall(r"'[^']*'|[A-Za-z_][A-Za-z_0-9]*|[=|()?*:]", text)
    # split into rules: Name '=' ... up to the next `Name =`
    rules = {}
    i = 0
    starts = [k for k in range(len(toks) - 1) if re.match(r"^[A-Za-z_]", toks[k]) and toks[k + 1] == "=" and (k == 0 or toks[k - 1] != ":")]
    for si, k in enumerate(starts):
        end = starts[si + 1] if si + 1 < len(starts) else len(toks)
        rules[toks[k]] = toks[k + 2:end]
    return rules


def mandatory_tokens(body):
    """literal tokens at nesting depth 0 that are not followed by ? or *; returns None for alternations"""
    depth = 0
    out = []
    # an alternation at depth 0 makes nothing mandatory
    d = 0
    for t in body:
        if t == "(":
            d += 1
        elif t == ")":
            d -= 1
        elif t == "|" and d == 0:
            return None
    # find optional groups: a ')' followed by ? or * makes the whole group optional
    stack = []
    optional = [False] * len(body)
    for i, t in enumerate(body):
        if t == "(":
            stack.append(i)
        elif t == ")":
            j = stack.pop()
            if i + 1 < len(body) and body[i + 1] in ("?", "*"):
                for k in range(j, i + 1):
                    optional[k] = True
    for i, t in enumerate(body):
        if t.startswith("'") and not optional[i] and not (i + 1 < len(body) and body[i + 1] in ("?", "*")):
            lit = t[1:-1]
            if not lit.endswith("!"):
                out.append(lit)
    return out


def literal_blocks(g):
    """block -> literal string pushed with PrintItems::push_string("..".to_owned())"""
    out = {}
    for b, t in g.calls():
        fn = t.get("fn") or ""
        if fn.endswith("PrintItems::push_string") or fn.endswith("PrintItems::push_str") or fn.endswith("::push_string"):
            d = strip(g.desc_op(t["args"][1]))
            lit = None
            if d[0] == "call" and d[2] and strip(d[2][0])[0] == "const":
                lit = strip(d[2][0])[1]
            elif d[0] == "const":
                lit = d[1]
            if isinstance(lit, str):
                out[b] = set(lit.strip('"').split())
            elif d[0] == "call" and "ToString" in str(d[1]) and str(d[1]).endswith("::to_string") and strip(d[2][0])[:2] == ("param", 1):
                out[b] = {"<whole node text>"}
    return out


def child_print_blocks(g, mand_of):
    """block -> tokens that a child node printed there is itself obliged to write"""
    out = {}
    for b, t in g.calls():
        fn = t.get("fn") or ""
        if fn.endswith("Printable::print"):
            tys = " ".join([str(x) for x in (t.get("gargs") or [])] + [str(x) for x in (t.get("argtys") or [])[:1]])
            toks = set()
            for m in re.finditer(r"generated::nodes::([A-Za-z]+)", tys):
                toks |= set(mand_of.get(m.group(1)) or [])
            if toks:
                out[b] = toks
    return out


def run(prog):
    obs = []
    path = os.path.join(facts.REPO, "crates/jrsonnet-rowan-parser/jsonnet.ungram")
    if not os.path.exists(path):
        return [bad(RULE, "grammar", "", "jsonnet.ungram not found")], [], {}
    rules = parse_ungram(open(path).read())
    n_nodes = n_tok = 0
    mand_of = {n: mandatory_tokens(b) for n, b in rules.items()}
    # printers: <Node as Printable>::print, or an arm of an enum's printer
    printers = {}
    for p, f in prog.fns.items():
        if f.impl_trait == P and f.self_ty and f.self_ty.startswith(N) and p.endswith("::print") and f.kind != "Closure":
            printers[f.self_ty[len(N):]] = f
    for node, body in sorted(rules.items()):
        mand = mandatory_tokens(body)
        if not mand:
            continue
        regions = []
        if node in printers:
            regions.append((printers[node], 0))
        else:
            # an arm `Self::<node>(x)` of an enum printer
            for en, f in printers.items():
                for b in sorted(f.live_blocks):
                    t = f.term(b)
                    if isinstance(t, list) and t[0] == "switch" and len(t) > 5 and str(t[5]).startswith(N) and strip(f.desc_op(t[1]))[:1] == ("discr",):
                        for v, bb, nm in t[2]:
                            if nm == node:
                                regions.append((f, bb))
        if not regions:
            obs.append(info(RULE, "no-printer:%s" % node, "", "no print code found for %s (tokens %s); it may be printed by its parent" % (node, mand)))
            continue
        n_nodes += 1
        for f, start in regions:
            lits = literal_blocks(f)
            for b, toks in child_print_blocks(f, mand_of).items():
                lits[b] = lits.get(b, set()) | toks
            rets = set(f.returns())
            for tok in sorted(set(mand)):
                n_tok += 1
                key = "%s:%s" % (node, tok)
                blocks = tuple(b for b, l in lits.items() if tok in l or "<whole node text>" in l)
                # token printed from the tree (a *_token accessor) also counts
                reach = ({start} if start not in blocks else set()) | (f.reach_from(start, removed_blocks=blocks) if start not in blocks else set())
                if start == 0 and 0 not in blocks:
                    reach |= {0}
                escaped = [r for r in rets if r in reach]
                if not blocks:
                    obs.append(bad(RULE, key, site(f), "the mandatory token `%s` of %s is never written by %s (neither as a literal nor by a child printer that owes it)" % (tok, node, short_path(f.path))))
                elif escaped:
                    obs.append(bad(RULE, key, site(f), "%s can be printed without its mandatory `%s`: a path through %s reaches the return without writing it"
                                   % (node, tok, short_path(f.path))))
                else:
                    obs.append(ok(RULE, key, site(f), "`%s` is written on every path" % tok))
    return obs, [Floor(RULE, "nodes with mandatory tokens", n_nodes, 10), Floor(RULE, "mandatory tokens", n_tok, 20)], {"grammar_nodes": n_nodes, "grammar_tokens": n_tok}
