"""R-ARITH: no arithmetic trap (overflow / division by zero) on program-derived integers.

Every MIR `Assert{Overflow|OverflowNeg|DivisionByZero|RemainderByZero}` in hand-written product
code whose class is *armed* must be discharged by a dominating guard, a structural idiom, or a
reviewed table entry (tables/arith_reviewed.json, one reason per line); otherwise it is reported.
"""
import json
import os
import re

from ..mir import strip, show, short_path, contains, opname
from ..report import ok, bad, info, site, Floor, VERIF

RULE = "R-ARITH"

CRATES = ("jrsonnet_evaluator", "jrsonnet_stdlib", "jrsonnet_ir", "jrsonnet_ir_parser", "jrsonnet_lexer",
          "jrsonnet_interner", "jrsonnet_rowan_parser", "jrsonnet_formatter", "jrsonnet_cli", "jrsonnet",
          "jrsonnet_fmt", "jrsonnet_deps", "jsonnet", "jrsonnet_types", "jrsonnet_peg_parser")

SMALL = ("u8", "u16", "i8", "i16")
MID = ("u32", "i32")
UNSIGNED = ("u8", "u16", "u32", "u64", "u128", "usize")


def load_table(name):
    p = os.path.join(VERIF, "tables", name)
    if not os.path.exists(p):
        return {}
    with open(p) as fh:
        j = json.load(fh)
    return {e["key"]: e for e in j["entries"]}


def _split_key(key):
    """'<fn path>:<site shape>[#n]' -> (module of the function, site shape with parameter numbers erased).  The function path only
    contains `::`, so the first single colon ends it; a key that is just a function path (R-FRAME) has an empty shape."""
    parts = re.split(r"(?<!:):(?!:)", key, maxsplit=1)
    fn, rest = parts[0], (parts[1] if len(parts) > 1 else "")
    rest = re.sub(r"#\d+$", "", rest)
    rest = re.sub(r"\bp\d+\b", "p", rest)
    rest = re.sub(r"\barg\d+\b", "arg", rest)
    return _module(fn), _commute(rest)


def _module(fn):
    """crate and top-level module of a function path (`<a::b::T as Tr>::f`, `a::b::T::f`, `a::b::f::{closure#0}` -> `a::b`)"""
    fn = re.sub(r"(::\{closure#\d+\})+$", "", fn)
    m = re.match(r"^<(.+?) as .+$", fn)
    if m:
        fn = m.group(1)
    fn = fn.lstrip("<&' ")
    segs = [x for x in re.split(r"::", re.sub(r"<.*$", "", fn)) if x]
    if not m:
        segs = segs[:-1]                       # the function itself
    mods = []
    for x in segs:
        if x[:1].islower() or x[:1] == "_":
            mods.append(x)
        else:
            break                             # a type: `a::b::T::f` lives in module a::b
    return "::".join(mods[:2])


def _commute(rest):
    """operands of commutative operations in a canonical order (`1 + n` and `n + 1` are the same site)"""
    m = re.match(r"^(Add|Mul|BitAnd|BitOr|BitXor)\(([a-z0-9]+);(.*)\)$", rest)
    if not m:
        return rest
    ops = m.group(3)
    depth = 0
    cut = None
    for i, ch in enumerate(ops):
        if ch in "([{<":
            depth += 1
        elif ch in ")]}>":
            depth -= 1
        elif ch == "," and depth == 0:
            cut = i
    if cut is None:
        return rest
    a, b = ops[:cut], ops[cut + 1:]
    if a > b:
        a, b = b, a
    return "%s(%s;%s,%s)" % (m.group(1), m.group(2), a, b)


def _loose(rest):
    """operation, integer type and constant operands only: `Add(u32;*,10)`, `[*;*]`, `*->i64`"""
    m = re.match(r"^([A-Za-z:]+)\(([a-z0-9]+);(.*)\)$", rest)
    if m:
        ops = m.group(3)
        # split the two operands at the top-level comma
        depth = 0
        cut = None
        for i, ch in enumerate(ops):
            if ch in "([{<":
                depth += 1
            elif ch in ")]}>":
                depth -= 1
            elif ch == "," and depth == 0:
                cut = i
        parts = [ops[:cut], ops[cut + 1:]] if cut is not None else [ops]
        parts = [x if re.match(r"^-?\d+$", x) else "*" for x in parts]
        if m.group(1) in ("Add", "Mul", "BitAnd", "BitOr", "BitXor"):
            parts.sort()
        return "%s(%s;%s)" % (m.group(1), m.group(2), ",".join(parts))
    if rest.startswith("["):
        return "[*;*]"
    m = re.match(r"^(index|split_at|split_at_mut|truncate|insert|insert_str|drain|replace_range|split_off|remove)\(", rest)
    if m:
        return m.group(1) + "(*)"
    if "->" in rest:
        return "*->" + rest.rsplit("->", 1)[1]
    return rest


class MovedSites:
    """A reviewed entry follows its site when the code is moved within its module (helper extracted, helper inlined, function
    renamed): an open site may take over the reason of a reviewed entry whose own site no longer exists anywhere in the program,
    if module and site shape (operation, integer type, operand descriptors with parameter numbers erased) are the same.
    Each stale entry is consumed once, so a *new* site next to a still existing reviewed one is never accepted."""

    def __init__(self, reviewed, all_keys):
        self.stale = {}
        self.loose = {}      # second chance: same module, operation, type and constant operands (a refactoring that changes how
                             # the other operand is computed, e.g. iterator chain -> loop, changes its descriptor)
        self.used = set()
        for k, e in reviewed.items():
            if k not in all_keys:
                mod, rest = _split_key(k)
                self.stale.setdefault((mod, rest), []).append(e)
                self.loose.setdefault((mod, _loose(rest)), []).append(e)

    def take(self, key, want=None):
        mod, rest = _split_key(key)
        for table, k in ((self.stale, (mod, rest)), (self.loose, (mod, _loose(rest)))):
            for e in table.get(k, []):
                if id(e) not in self.used and (want is None or want(e)):
                    self.used.add(id(e))
                    return e
        return None


def armed(kind, ity, ops_desc):
    """is this assert in a class that traps on program-derived values here?"""
    k = kind.split(":")
    if k[0] == "Overflow":
        op = k[1]
        if op in ("Shl", "Shr"):
            return ops_desc[1][0] != "const"
        if op in ("Div", "Rem"):
            # signed MIN / -1
            return ops_desc[1][0] != "const"
        if ity in SMALL:
            return True
        if op == "Sub" and ity in UNSIGNED:
            return True
        if ity in MID and op in ("Add", "Sub", "Mul"):
            return True
        return False  # 64-bit Add/Mul on lengths: memory-bounded (assumption)
    if k[0] == "OverflowNeg":
        return True
    if k[0] in ("DivisionByZero", "RemainderByZero"):
        return True
    return False


def norm_shape(d):
    """operand shape for keys: locals anonymous, params by position, fields/calls by name"""
    if not isinstance(d, tuple) or not d:
        return "?"
    k = d[0]
    if k == "param":
        return "p%d" % d[1]
    if k in ("var", "uninit"):
        return "v"
    if k == "const":
        return str(d[1])
    if k == "field":
        return "%s.%s" % (norm_shape(d[1]), d[2])
    if k == "as":
        return "%s@%s" % (norm_shape(d[1]), d[2])
    if k == "index":
        return "%s[]" % norm_shape(d[1])
    if k == "call":
        return "%s(%s)" % (call_name(d[1]), ",".join(norm_shape(a) for a in d[2][:3]))
    if k == "bin":
        return "(%s%s%s)" % (norm_shape(d[2]), d[1], norm_shape(d[3]))
    if k == "cast":
        return "%s as %s" % (norm_shape(d[2]), short_path(d[3]))
    if k == "un":
        return "%s%s" % (d[1], norm_shape(d[2]))
    if k == "env":
        return "env"
    return k


def call_name(p):
    """last two path segments, generics and impl headers removed"""
    q = re.sub(r"<[^<>]*>", "", p or "")
    while "<" in q and ">" in q:
        q2 = re.sub(r"<[^<>]*>", "", q)
        if q2 == q:
            break
        q = q2
    segs = [x for x in q.replace(" ", "").split("::") if x and x not in ("impl",)]
    return "::".join(segs[-2:]) if segs else "call"


GENERATED = ("parser!",)


def generated(exp):
    return any(e in GENERATED or e.startswith("#[derive(") for e in exp)


def cmp_facts(f, b):
    """normalised relational facts holding at block b: list of (op, A, B) meaning A op B with op in Lt Le Gt Ge Eq Ne,
    plus unary facts ('nonempty', X) / ('true', call)"""
    out = []
    NEG = {"Lt": "Ge", "Ge": "Lt", "Gt": "Le", "Le": "Gt", "Eq": "Ne", "Ne": "Eq"}
    for u, v, (d, val) in f.facts_at(b):
        sd = strip(d)
        if sd[0] == "bin" and sd[1] in NEG and isinstance(val, bool):
            op = sd[1] if val else NEG[sd[1]]
            out.append((op, sd[2], sd[3]))
        elif sd[0] == "un" and sd[1] == "Not" and isinstance(val, bool):
            inner = sd[2]
            if inner[0] == "call":
                out.append(("callbool", inner, not val))
        elif sd[0] == "call" and isinstance(val, bool):
            out.append(("callbool", sd, val))
        elif isinstance(val, tuple) and val[0] == "eq":
            out.append(("Eq", sd, ("const", val[1])))
        elif isinstance(val, tuple) and val[0] == "ne":
            for c in val[1]:
                out.append(("Ne", sd, ("const", c)))
        elif isinstance(val, tuple) and val[0] == "variant" and sd[0] == "discr":
            out.append(("variant", sd[1], val[1]))
    return out


def implies_ge(facts, A, B):
    """do the facts establish A >= B (unsigned)?"""
    for fct in facts:
        op = fct[0]
        if op in ("Ge", "Gt", "Eq") and fct[1] == A and fct[2] == B:
            return "%s %s %s" % (show(A), op, show(B))
        if op in ("Le", "Lt", "Eq") and fct[1] == B and fct[2] == A:
            return "%s %s %s" % (show(B), op, show(A))
    if B[0] == "const" and isinstance(B[1], int):
        c = B[1]
        for fct in facts:
            op = fct[0]
            if op in ("Gt", "Ge", "Eq", "Ne") and fct[1] == A and fct[2][0] == "const" and isinstance(fct[2][1], int):
                k = fct[2][1]
                if (op == "Gt" and k + 1 >= c) or (op in ("Ge", "Eq") and k >= c) or (op == "Ne" and k == 0 and c == 1):
                    return "%s %s %s" % (show(A), op, k)
            if op in ("Lt", "Le") and fct[2] == A and fct[1][0] == "const" and isinstance(fct[1][1], int):
                k = fct[1][1]
                if (op == "Lt" and k + 1 >= c) or (op == "Le" and k >= c):
                    return "%s %s %s" % (k, op, show(A))
            # len(X) - 1 under !X.is_empty()
            if c == 1 and op == "callbool" and fct[2] is False and fct[1][1].endswith("::is_empty"):
                if A[0] == "call" and A[1].endswith("::len") and A[2] == fct[1][2]:
                    return "!%s" % show(fct[1])
    return None


def nonzero(facts, D):
    for fct in facts:
        op = fct[0]
        if op == "Ne" and fct[1] == D and fct[2] == ("const", 0):
            return "%s != 0" % show(D)
        if op in ("Gt",) and fct[1] == D and fct[2][0] == "const" and isinstance(fct[2][1], int) and fct[2][1] >= 0:
            return "%s > %s" % (show(D), fct[2][1])
        if op == "Ge" and fct[1] == D and fct[2][0] == "const" and isinstance(fct[2][1], int) and fct[2][1] >= 1:
            return "%s >= %s" % (show(D), fct[2][1])
        if op == "Lt" and fct[2] == D and fct[1][0] == "const" and isinstance(fct[1][1], int) and fct[1][1] >= 0:
            return "%s < %s" % (fct[1][1], show(D))
        if op == "callbool" and fct[2] is False and fct[1][1].endswith("::is_empty"):
            if D[0] == "call" and D[1].endswith("::len") and D[2] == fct[1][2]:
                return "!%s" % show(fct[1])
    return None


def in_scope(f):
    if f.crate.split(".")[0] not in CRATES:
        return False
    if "/generated/" in f.file:
        return False
    if f.file.endswith(("/tests.rs", "/test.rs")) or "/tests/" in f.file:
        return False
    return True


def sites(prog, pred=None):
    for f in sorted(prog.fns.values(), key=lambda f: (f.file, f.line, f.path)):
        if not in_scope(f):
            continue
        if pred is not None and not pred(f):
            continue
        for b, t in f.asserts():
            if b not in f.live_blocks:
                continue
            k = t["kind"]
            if k.split(":")[0] not in ("Overflow", "OverflowNeg", "DivisionByZero", "RemainderByZero"):
                continue
            yield f, b, t


def site_key_base(f, t, ds):
    kind = t["kind"]
    opk = kind.replace("Overflow:", "")
    return "%s:%s(%s;%s,%s)" % (f.path, opk, t["ity"], norm_shape(ds[0]), norm_shape(ds[1]) if len(ds) > 1 else "")


def all_site_keys(prog):
    if getattr(prog, "_arith_keys", None) is not None:
        return prog._arith_keys
    keys = set()
    counts = {}
    for f, b, t in sites(prog, None):
        kind = t["kind"]
        if generated(t["exp"]) or generated(f.exp):
            continue
        ds = [strip(f.desc_op(o)) for o in t["ops"]]
        if kind.startswith(("DivisionByZero", "RemainderByZero")):
            divisor = find_divisor(f, b, t)
            ds = [ds[0], divisor if divisor is not None else ("unknown",)]
        if kind == "OverflowNeg":
            ds = [ds[0], ("const", None)]
        if not armed(kind, t["ity"], ds):
            continue
        base = site_key_base(f, t, ds)
        counts[base] = counts.get(base, 0) + 1
        keys.add(base if counts[base] == 1 else "%s#%d" % (base, counts[base]))
    prog._arith_keys = keys
    return keys


def run(prog, pred=None, floor=None):
    reviewed = load_table("arith_reviewed.json")
    obs = []
    n_armed = 0
    n_all = 0
    counts = {}
    used_reviewed = set()
    moved = MovedSites(reviewed, all_site_keys(prog))
    for f, b, t in sites(prog, pred):
        kind = t["kind"]
        if generated(t["exp"]) or generated(f.exp):
            continue
        ds = [strip(f.desc_op(o)) for o in t["ops"]]
        n_all += 1
        if kind.startswith(("DivisionByZero", "RemainderByZero")):
            # operand recorded is the dividend; the divisor is the rhs of the Div/Rem statement that follows
            divisor = find_divisor(f, b, t)
            ds = [ds[0], divisor if divisor is not None else ("unknown",)]
        if kind == "OverflowNeg":
            ds = [ds[0], ("const", None)]
        if not armed(kind, t["ity"], ds):
            continue
        opk = kind.replace("Overflow:", "")
        base = "%s:%s(%s;%s,%s)" % (f.path, opk, t["ity"], norm_shape(ds[0]), norm_shape(ds[1]) if len(ds) > 1 else "")
        counts[base] = counts.get(base, 0) + 1
        key = base if counts[base] == 1 else "%s#%d" % (base, counts[base])
        st = site(f, t["line"])
        n_armed += 1
        why = discharge(prog, f, b, t, kind, ds)
        if why:
            obs.append(ok(RULE, key, st, why))
            continue
        if key in reviewed:
            used_reviewed.add(key)
            obs.append(ok(RULE, key, st, "reviewed: " + reviewed[key]["reason"]))
            continue
        mv = moved.take(key)
        if mv:
            obs.append(ok(RULE, key, st, "reviewed (site moved within its module; was %s): %s" % (short_path(re.split(r":[A-Za-z]+\(", mv["key"])[0]), mv["reason"])))
            continue
        obs.append(bad(RULE, key, st,
                       "%s on %s `%s` can trap: no dominating guard, idiom or reviewed-table entry discharges it "
                       "(operands: %s)" % (opk, t["ity"], " , ".join(show(d) for d in ds), "; ".join(show(d) for d in ds))))
    floors = []
    if floor:
        floors.append(Floor(RULE, "armed arithmetic assert sites", n_armed, floor))
    return obs, floors, {"assert_sites_seen": n_all, "armed_sites": n_armed, "reviewed_table_entries_used": len(used_reviewed)}


def find_divisor(f, b, t):
    """DivisionByZero assert: cond = (divisor == 0) computed just before; find `Eq(divisor, 0)`"""
    c = t["cond"]
    if c[0] in ("cp", "mv") and len(c[1]) == 1:
        sd = f.single_def(c[1][0])
        if sd and sd[0] == "s" and sd[4][0] == "bin" and opname(sd[4][1]) == "Eq":
            return strip(f.desc_op(sd[4][2]))
    return None


def const_param(prog, f, idx, pred):
    """every call site of f passes a constant satisfying pred as argument idx (1-based)"""
    callers = prog.callers.get(f.path, [])
    if not callers or f.kind == "Closure":
        return None
    vals = []
    for cf, cb, ct in callers:
        if len(ct["args"]) < idx:
            return None
        d = strip(cf.desc_op(ct["args"][idx - 1]))
        if d[0] != "const" or not pred(d[1]):
            return None
        vals.append(d[1])
    return "all %d call sites in the workspace pass constants %s" % (len(vals), sorted(set(vals)))



def _peel_field(d):
    d = strip(d)
    if d[0] != "field" or not isinstance(d[2], str) or d[2].isdigit():
        return None
    base = d[1]
    while base[0] in ("ref", "deref"):
        base = base[1]
    return (base, d[2]) if base[0] == "param" else None


def _agg_sites(prog):
    if not hasattr(prog, "_agg_sites_cache"):
        sites, mut = {}, set()
        for g in prog.fns.values():
            for ty in g.locals:
                m = re.match(r"&mut ([A-Za-z_0-9:]+)", str(ty))
                if m:
                    mut.add(m.group(1))
            for b in range(g.n):
                for st in g.stmts(b):
                    if st[0] == "a" and st[2][0] == "agg" and st[2][1] == "adt" and len(st[2]) > 5:
                        sites.setdefault(st[2][2], []).append((g, b, st))
        prog._agg_sites_cache = (sites, mut)
    return prog._agg_sites_cache


def field_invariant_ge(prog, f, A, B):
    pa, pb = _peel_field(A), _peel_field(B)
    if not pa or not pb or pa[0] != pb[0] or pa[1] == pb[1]:
        return None
    ty = re.sub(r"^&(mut )?", "", str(f.locals[pa[0][1]]))
    sites, mut = _agg_sites(prog)
    if ty in mut or not sites.get(ty):
        return None
    F, G = pa[1], pb[1]
    for g, b, st in sites[ty]:
        names = st[2][5]
        if F not in names or G not in names:
            return None
        dF = strip(g.desc_op(st[2][4][names.index(F)]))
        opG = st[2][4][names.index(G)]
        dG = strip(g.desc_op(opG))
        if dG == ("const", 0) or implies_ge(cmp_facts(g, b), dF, dG):
            continue
        # G assigned on several paths: each value is 0 or `x % F` (which is < F)
        lg = opG[1][0] if opG[0] in ("cp", "mv") and len(opG[1]) == 1 else None
        lf_op = st[2][4][names.index(F)]
        defs = g.defs.get(lg, []) if lg is not None else []
        # look through one copy
        if len(defs) == 1 and defs[0][0] == "s" and defs[0][4][0] == "use" and defs[0][4][1][0] in ("cp", "mv") and len(defs[0][4][1][1]) == 1:
            defs = g.defs.get(defs[0][4][1][1][0], [])
        good = bool(defs)
        for df in defs:
            if df[0] != "s":
                good = False
                break
            d2 = strip(g.desc_rvalue(df[4]))
            if d2 == ("const", 0):
                continue
            if d2[0] == "field" and d2[2] == "0":
                d2 = d2[1]
            if d2[0] == "bin" and d2[1] == "Rem" and strip(d2[3]) == dF:
                continue
            good = False
            break
        if not good:
            return None
    return "struct invariant: every construction of %s sets %s to 0, to a value tested <= %s, or to `_ %% %s`; the struct is never borrowed mutably" % (short_path(ty), G, F, F)


def discharge(prog, f, b, t, kind, ds):
    A = ds[0]
    B = ds[1] if len(ds) > 1 else None
    if all(d[0] == "const" for d in ds if d is not None) and kind != "OverflowNeg":
        return "constant operands"
    facts = cmp_facts(f, b)
    k = kind.split(":")
    if k[0] in ("DivisionByZero", "RemainderByZero"):
        if B is not None and B[0] == "const" and B[1] not in (0, None):
            return "constant non-zero divisor"
        if B is not None and B[0] == "param" and prog is not None:
            r = const_param(prog, f, B[1], lambda c: isinstance(c, int) and c not in (0, -1))
            if r:
                return r
        if B is not None:
            r = nonzero(facts, B)
            if r:
                return "divisor guarded: " + r
            # divisor = max(1, x) / NonZero::get
            if B[0] == "call" and (B[1].endswith("NonZero::<T>::get") or "NonZero" in B[1] and B[1].endswith("::get")):
                return "divisor is NonZero::get()"
            if B[0] == "call" and B[1].endswith("::max") and any(a[0] == "const" and isinstance(a[1], int) and a[1] >= 1 for a in B[2]):
                return "divisor is max(>=1, _)"
        return None
    if k[0] == "Overflow" and k[1] in ("Div", "Rem"):
        # signed MIN / -1: divisor must be provably != -1
        if B is not None and B[0] == "const" and B[1] != -1:
            return "constant divisor != -1"
        if B is not None and B[0] == "param" and prog is not None:
            r = const_param(prog, f, B[1], lambda c: isinstance(c, int) and c not in (0, -1))
            if r:
                return r
        for fct in facts:
            if fct[0] in ("Gt", "Ge") and fct[1] == B and fct[2][0] == "const" and isinstance(fct[2][1], int) and fct[2][1] >= 0:
                return "divisor positive: %s %s %s" % (show(B), fct[0], fct[2][1])
        return None
    if k[0] == "Overflow" and k[1] == "Sub" and t["ity"] in UNSIGNED:
        r = implies_ge(facts, A, B)
        if r:
            return "guarded: " + r
        # (x - y) - 1 under x > y
        if B == ("const", 1) and A[0] == "field" and A[2] == "0" and A[1][0] == "bin" and A[1][1] == "Sub":
            A = A[1]
        if B[0] == "const" and B[1] == 1 and A[0] == "bin" and A[1] == "Sub":
            for fct in facts:
                if (fct[0] == "Gt" and fct[1] == A[2] and fct[2] == A[3]) or (fct[0] == "Lt" and fct[1] == A[3] and fct[2] == A[2]):
                    return "guarded: %s > %s so the difference is >= 1" % (show(A[2]), show(A[3]))
        # x.len() - n where n counts elements of an iterator over the same x (or is 0): n <= len
        if A[0] == "call" and str(A[1]).endswith(("String::len", "<impl str>::len", "<impl [T]>::len", "Vec::<T, A>::len")) and B[0] == "var" and A[2]:
            base = strip(A[2][0])
            defs = f.defs.get(B[1], [])
            good = bool(defs)
            for df in defs:
                if df[0] == "s":
                    d2 = strip(f.desc_rvalue(df[4]))
                    if d2[:2] != ("const", 0):
                        good = False
                elif df[0] == "call":
                    t2 = df[4]
                    if not (t2.get("fn") or "").endswith("Iterator::count") or not contains(strip(f.desc_op(t2["args"][0])), lambda x: x == base):
                        good = False
                else:
                    good = False
            if good:
                return "the subtrahend counts elements of an iterator over the same text (or is 0), so it is <= len"
        # an explicit maximum: `let v = if x < c { c } else { x }; v - c` -- every assignment of v is a constant >= c or a value known to be >= c
        if A[0] == "var" and B[0] == "const" and isinstance(B[1], int) and not isinstance(B[1], bool):
            defs = f.defs.get(A[1], [])
            good = bool(defs) and all(len(x[3]) == 1 for x in defs)
            for df in defs if good else []:
                if df[0] != "s":
                    good = False
                    break
                d2 = strip(f.desc_rvalue(df[4]))
                if d2[0] == "const" and isinstance(d2[1], int) and not isinstance(d2[1], bool) and d2[1] >= B[1]:
                    continue
                if d2[0] != "const" and implies_ge(cmp_facts(f, df[1]), d2, B):
                    continue
                good = False
                break
            if good:
                return "every assignment of the minuend is a constant >= %s or a value tested to be >= %s" % (B[1], B[1])
        # self.F - self.G under a struct invariant F >= G: every construction of the struct establishes it and the struct is never
        # borrowed mutably (so the fields keep the values they were built with)
        if prog is not None:
            r = field_invariant_ge(prog, f, A, B)
            if r:
                return r
        # (a + b) - b  /  a.len() - a.len()
        if A == B:
            return "x - x"
        # x.max(c) - c
        if A[0] == "call" and A[1].endswith("::max") and B in A[2]:
            return "max(_, b) - b"
        return None
    if k[0] == "Overflow" and k[1] in ("Shl", "Shr"):
        # amount masked / reduced modulo width
        if B[0] == "bin" and B[1] in ("BitAnd", "Rem") and B[3][0] == "const":
            return "shift amount masked"
        return None
    if k[0] == "Overflow" and k[1] == "Add" and t["ity"] in ("u32", "i32") and False:
        return None
    return None
