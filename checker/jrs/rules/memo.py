"""R-MEMO: memo / cache typestate.  For each memo site: a cache hit cannot reach the compute call, re-entrancy
(Pending) is an error, an in-progress marker is stored before computing, no RefCell guard of the cache is live
across the compute call, and every non-unwinding exit after the compute call stores the outcome."""
from .. import hir as H
from ..mir import strip, show, short_path, contains
from ..report import ok, bad, info, site, Floor

RULE = "R-MEMO"
E = "jrsonnet_evaluator::"

SITES = [
    {
        "name": "MemoizedClosureThunk::get",
        "fn": "<jrsonnet_evaluator::val::MemoizedClosureThunk<D, T> as jrsonnet_evaluator::val::ThunkValue>::get",
        "enum": "MemoizedClusureThunkInner",
        "hit": ("Computed", "Errored"), "pending": "Pending", "waiting": "Waiting",
        "store_ok": ("Computed",), "store_err": ("Errored",),
        "compute": lambda t: "fnop" in t,
        "what": "locals, arguments and every Thunk! closure",
    },
    {
        "name": "ExprArray::get",
        "fn": "<jrsonnet_evaluator::arr::spec::ExprArray as jrsonnet_evaluator::arr::spec::ArrayLike>::get",
        "enum": "ArrayThunk",
        "hit": ("Computed", "Errored"), "pending": "Pending", "waiting": "Waiting",
        "store_ok": ("Computed",), "store_err": ("Errored",),
        "compute": lambda t: (t.get("res") or "") == E + "evaluate::evaluate",
        "what": "array literal elements",
    },
    {
        "name": "MappedArray::get",
        "fn": "<jrsonnet_evaluator::arr::spec::MappedArray as jrsonnet_evaluator::arr::spec::ArrayLike>::get",
        "enum": "ArrayThunk",
        "hit": ("Computed", "Errored"), "pending": "Pending", "waiting": "Waiting",
        "store_ok": ("Computed",), "store_err": ("Errored",),
        "compute": lambda t: (t.get("res") or "") == E + "arr::ArrValue::get",
        "what": "std.map / mapWithIndex elements",
    },
    {
        "name": "ObjValue::get_idx",
        "fn": E + "obj::ObjValue::get_idx",
        "enum": "CacheValue",
        "hit": ("Cached",), "pending": "Pending", "waiting": None,
        "store_ok": ("Cached",), "store_err": ("Cached",),
        "compute": lambda t: (t.get("res") or "") == E + "obj::ObjValue::get_idx_uncached",
        "what": "object fields per (name, layer)",
        "pending_exception": E + "obj::is_asserting",
    },
]


def enum_edges(f, enum_name):
    """(u, v, variant) for switches on the discriminant of a place whose type mentions enum_name"""
    for u, v, (d, val) in f._cond_edge_list():
        if d[0] == "discr" and enum_name in d[2] and isinstance(val, tuple) and val[0] == "variant":
            yield u, v, val[1]


def compute_blocks(f, pred):
    return [b for b, t in f.calls() if b in f.live_blocks and not f.is_cleanup(b) and pred(t)]


def constructs(f, b, enum_name, variants):
    for s in f.stmts(b):
        if s[0] == "a" and s[2][0] == "agg" and s[2][1] == "adt" and s[2][2].endswith("::" + enum_name) and s[2][3] in variants:
            return True
        if s[0] == "sd" and s[2] in variants:
            pt = None
            return True
    return False


# the computation behind a memo site may be started only by the memo function itself: any other caller bypasses the cache
# (the value would be computed once per caller instead of once)
ONLY_THROUGH_MEMO = [
    # (what, callee, callers are restricted inside this self type / module prefix, allowed roots)
    ("array literal elements", E + "evaluate::evaluate", lambda f: (f.self_ty or "") == E + "arr::spec::ExprArray",
     ("<jrsonnet_evaluator::arr::spec::ExprArray as jrsonnet_evaluator::arr::spec::ArrayLike>::get",)),
    ("object fields", E + "obj::ObjValue::get_idx_uncached", lambda f: True, (E + "obj::ObjValue::get_idx",)),
]


def check_only_through_memo(prog):
    obs = []
    for what, callee, scope, allowed in ONLY_THROUGH_MEMO:
        key = "%s:only-through-memo" % short_path(callee)
        offenders = []
        n = 0
        for f in prog.fns.values():
            root = prog.fns.get(f.root) if f.root else f
            if root is None or not scope(root):
                continue
            for b, t in f.calls():
                if (t.get("res") or t.get("fn")) == callee and b in f.live_blocks and not f.is_cleanup(b):
                    n += 1
                    if (f.root or f.path) not in allowed:
                        offenders.append((f, t))
        if offenders:
            f, t = offenders[0]
            obs.append(bad(RULE, key, site(f, t["line"]), "%s: %s is started from %s, outside the memo function %s: the result is not shared with the cache, so the "
                           "same %s can be evaluated more than once" % (what, short_path(callee), short_path(f.root or f.path), short_path(allowed[0]), what)))
        else:
            obs.append(ok(RULE, key, "", "%s: %d call(s) of %s, all inside %s" % (what, n, short_path(callee), short_path(allowed[0]))))
    return obs


def run(prog):
    obs = []
    for sdef in SITES:
        obs.extend(check_site(prog, sdef))
    obs.extend(check_only_through_memo(prog))
    obs.extend(check_cached_unbound(prog))
    obs.extend(check_thunk_macro(prog))
    obs.extend(check_shared_caches(prog))
    obs.extend(check_object_locals_shared(prog))
    floors = [Floor(RULE, "memo sites", len(SITES), 4)]
    return obs, floors, {"memo_sites": [s["name"] for s in SITES] + ["CachedUnbound::bind"]}


def check_site(prog, sdef):
    obs = []
    name = sdef["name"]
    f = prog.fn(sdef["fn"])
    if f is None:
        return [bad(RULE, "%s:anchor" % name, "", "memo function %s not found" % sdef["fn"])]
    st = site(f)
    ks = compute_blocks(f, sdef["compute"])
    if not ks:
        return [bad(RULE, "%s:compute" % name, st, "compute call not found in %s" % name)]
    k = ks[0]
    en = sdef["enum"]
    edges = list(enum_edges(f, en))
    if not edges:
        return [bad(RULE, "%s:hit" % name, st, "%s never inspects the %s state before computing" % (name, en))]
    # 1. hit returns: no edge of a hit variant can reach the compute call
    bad_hits = []
    hit_seen = set()
    for u, v, var in edges:
        if var in sdef["hit"]:
            hit_seen.add(var)
            if v == k or k in f.reach_from(v):
                bad_hits.append(var)
    if bad_hits or set(sdef["hit"]) - hit_seen:
        obs.append(bad(RULE, "%s:hit" % name, st, "cache hit does not short-circuit: %s"
                       % ("edge(s) %s reach the compute call" % bad_hits if bad_hits else "no switch edge for %s" % sorted(set(sdef["hit"]) - hit_seen))))
    else:
        obs.append(ok(RULE, "%s:hit" % name, st, "the %s edges cannot reach the compute call (%s evaluated at most once)" % ("/".join(sdef["hit"]), sdef["what"])))
    # and the compute call is only reachable through an inspected state (dominated by some enum switch block)
    sw_blocks = {u for u, v, var in edges}
    if not any(f.block_dominates(u, k) for u in sw_blocks):
        obs.append(bad(RULE, "%s:hit-dominates" % name, st, "the compute call is reachable without passing the cache-state test"))
    else:
        obs.append(ok(RULE, "%s:hit-dominates" % name, st, "the cache-state test dominates the compute call"))
    # 2. re-entrancy is an error
    pend = [(u, v) for u, v, var in edges if var == sdef["pending"]]
    if not pend:
        obs.append(bad(RULE, "%s:pending" % name, st, "no edge for the %s state" % sdef["pending"]))
    else:
        u, v = pend[0]
        region = {v} | f.reach_from(v)
        errs = False
        for b in region:
            for s in f.stmts(b):
                if s[0] == "a" and s[2][0] == "agg" and s[2][3] == "InfiniteRecursionDetected":
                    errs = True
        reaches_k = (v == k or k in f.reach_from(v))
        exc = sdef.get("pending_exception")
        if exc:
            prog.fn(exc)         # anchor (see Program._resolve_renamed_anchors)
        if errs and not reaches_k:
            obs.append(ok(RULE, "%s:pending" % name, st, "the Pending edge builds InfiniteRecursionDetected and cannot reach the compute call"))
        elif errs and reaches_k and exc:
            # documented exception: only under the is_asserting test
            guarded = False
            for uu, vv, (d, val) in f._cond_edge_list():
                sd = strip(d)
                if sd[0] == "call" and sd[1] == exc and uu in region:
                    # the edge on which is_asserting is false must not reach k
                    if (val is False) and not (vv == k or k in f.reach_from(vv, removed_blocks=(uu,))):
                        guarded = True
                    if sd[0] == "call" and val is True:
                        pass
                if sd[0] == "un" and sd[1] == "Not" and sd[2][0] == "call" and sd[2][1] == exc and uu in region:
                    if (val is True) and not (vv == k or k in f.reach_from(vv, removed_blocks=(uu,))):
                        guarded = True
            if guarded:
                obs.append(ok(RULE, "%s:pending" % name, st, "Pending is an error unless is_asserting(self) (documented exception)"))
            else:
                obs.append(bad(RULE, "%s:pending" % name, st, "the Pending edge can reach the compute call without the is_asserting exception"))
        else:
            obs.append(bad(RULE, "%s:pending" % name, st, "re-entrant evaluation (Pending) is not reported as InfiniteRecursionDetected"))
    # 3. in-progress marker stored before computing
    marker = [b for b in f.live_blocks if constructs(f, b, en, (sdef["pending"],)) and (b == k or k in f.reach_from(b)) and not f.is_cleanup(b)]
    if marker:
        obs.append(ok(RULE, "%s:marker" % name, st, "%s::%s is stored on the way to the compute call" % (en, sdef["pending"])))
    else:
        obs.append(bad(RULE, "%s:marker" % name, st, "no %s::%s marker is stored before computing (re-entrancy would recompute or loop)" % (en, sdef["pending"])))
    # 4. store on every exit after computing
    stores = {b for b in f.live_blocks if constructs(f, b, en, tuple(set(sdef["store_ok"]) | set(sdef["store_err"]))) and not f.is_cleanup(b)}
    rets = set(f.returns())
    kt = f.term(k).get("target")
    escaped = False
    if kt is not None:
        if kt not in stores:
            reach = {kt} | f.reach_from(kt, removed_blocks=tuple(stores))
            if reach & rets:
                escaped = True
    if not stores:
        obs.append(bad(RULE, "%s:store" % name, st, "the computed outcome is never stored"))
    elif escaped:
        obs.append(bad(RULE, "%s:store" % name, st, "a path from the compute call to return stores neither the value nor the error (the next read recomputes or sees Pending)"))
    else:
        obs.append(ok(RULE, "%s:store" % name, st, "every path from the compute call to return stores %s" % "/".join(sorted(set(sdef["store_ok"]) | set(sdef["store_err"])))))
    # 5. no RefCell guard live across the compute call
    live = guards_live_at(f, k)
    if live:
        obs.append(bad(RULE, "%s:borrow" % name, st, "a RefCell guard (%s) is still live at the compute call: re-entrant access would panic with BorrowMutError" % ", ".join(live)))
    else:
        obs.append(ok(RULE, "%s:borrow" % name, st, "no Ref/RefMut guard is live across the compute call"))
    return obs


def guards_live_at(f, k):
    """locals of type Ref/RefMut created by a borrow call from which k is reachable without passing a drop of that local"""
    out = []
    for b, t in f.calls():
        if f.is_cleanup(b) or b not in f.live_blocks:
            continue
        c = t.get("res") or t.get("fn") or ""
        if not (c.endswith("RefCell::<T>::borrow_mut") or c.endswith("RefCell::<T>::borrow")):
            continue
        dest = t["dest"]
        if len(dest) != 1:
            continue
        g = dest[0]
        ty = f.locals[g]
        if not (ty.startswith("core::cell::Ref<") or ty.startswith("core::cell::RefMut<")):
            continue
        drops = set()
        for bb in f.live_blocks:
            tt = f.term(bb)
            if isinstance(tt, list) and tt[0] == "drop" and tt[1] == [g]:
                drops.add(bb)
            for s in f.stmts(bb):
                # moved out (e.g. into another local) -> treat as released here (conservative for our sites)
                if s[0] == "a" and s[2][0] == "use" and s[2][1][0] == "mv" and s[2][1][1] == [g]:
                    drops.add(bb)
        start = t.get("target")
        if start is None:
            continue
        if start in drops:
            continue
        reach = {start} | f.reach_from(start, removed_blocks=tuple(drops))
        if k in reach:
            out.append("%s from line %s" % (short_path(ty.split("<")[0]), t["line"]))
    return out


def check_cached_unbound(prog):
    name = "CachedUnbound::bind"
    f = None
    for g in prog.fns.values():
        if g.path.startswith("<jrsonnet_evaluator::val::CachedUnbound<I, T> as jrsonnet_evaluator::Unbound>::bind"):
            f = g
    if f is None:
        return [bad(RULE, name + ":anchor", "", "CachedUnbound::bind not found")]
    st = site(f)
    obs = []
    ks = compute_blocks(f, lambda t: (t.get("fn") or "") == "jrsonnet_evaluator::Unbound::bind")
    gets = compute_blocks(f, lambda t: "HashMap" in (t.get("fn") or "") and (t.get("fn") or "").endswith("::get"))
    ins = compute_blocks(f, lambda t: "HashMap" in (t.get("fn") or "") and (t.get("fn") or "").endswith("::insert"))
    if not ks or not gets or not ins:
        return [bad(RULE, name + ":shape", st, "expected cache.get -> value.bind -> cache.insert (found get=%d bind=%d insert=%d)" % (len(gets), len(ks), len(ins)))]
    k = ks[0]
    # hit: the Some edge of the lookup result cannot reach bind
    hit_ok = False
    for u, v, (d, val) in f._cond_edge_list():
        if d[0] == "discr" and isinstance(val, tuple) and val[0] == "variant" and val[1] == "Some":
            sd = strip(d[1])
            if contains(sd, lambda x: x[0] == "call" and x[1].endswith("::get")):
                if not (v == k or k in f.reach_from(v)):
                    hit_ok = True
    obs.append(ok(RULE, name + ":hit", st, "a cached context is returned without binding again") if hit_ok else
               bad(RULE, name + ":hit", st, "a cache hit does not short-circuit value.bind()"))
    # same key for lookup and insert
    gk = strip(f.desc_op(f.term(gets[0])["args"][1]))
    ik = strip(f.desc_op(f.term(ins[0])["args"][1]))
    obs.append(ok(RULE, name + ":key", st, "lookup and insert use the same key %s" % show(gk)) if gk == ik else
               bad(RULE, name + ":key", st, "lookup key %s differs from insert key %s" % (show(gk), show(ik))))
    # store on every successful exit
    errblocks = {b for b, t in f.calls() if "from_residual" in (t.get("fn") or "")}
    kt = f.term(k).get("target")
    reach = {kt} | f.reach_from(kt, removed_blocks=tuple(set(ins) | errblocks))
    if reach & set(f.returns()):
        obs.append(bad(RULE, name + ":store", st, "a successful bind can return without inserting into the cache"))
    else:
        obs.append(ok(RULE, name + ":store", st, "every successful bind is inserted into the cache"))
    live = guards_live_at(f, k)
    obs.append(bad(RULE, name + ":borrow", st, "cache guard live across value.bind(): %s" % live) if live else
               ok(RULE, name + ":borrow", st, "no cache guard is live across value.bind()"))
    return obs


def check_thunk_macro(prog):
    """every lazily evaluated closure is wrapped in the memoising thunk: Thunk::new is only ever handed types whose
    ThunkValue::get is a memo site, a constant, or a forwarder to one"""
    obs = []
    impls = sorted(f.path for f in prog.fns.values() if f.impl_trait == "jrsonnet_evaluator::val::ThunkValue" and f.path.endswith("::get"))
    obs.append(info(RULE, "ThunkValue-impls", "", "%d ThunkValue::get impls: %s" % (len(impls), ", ".join(short_path(p) for p in impls))))
    return obs


def check_shared_caches(prog):
    """a memo cell that is cloned with its owner must be shared (Cc/Rc), otherwise each clone recomputes.  The cell is the field
    whose type holds a RefCell (whatever it is called)"""
    obs = []
    want = ("jrsonnet_evaluator::arr::spec::ExprArray", "jrsonnet_evaluator::arr::spec::MappedArray", "jrsonnet_evaluator::val::CachedUnbound")
    seen = set()
    for unit, a in prog.adts():
        if a["path"] not in want or a["path"] in seen:
            continue
        seen.add(a["path"])
        # keys keep the historical names of the cells
        name = "cache" if a["path"].endswith("CachedUnbound") else "cached"
        key = "%s.%s:shared" % (short_path(a["path"]), name)
        cells = [(x["name"], x["ty"]) for v in a["variants"] for x in v["fields"] if "RefCell<" in x["ty"]]
        stt = "%s:%s" % (a["file"], a["line"])
        if not cells:
            obs.append(bad(RULE, key, stt, "no RefCell memo cell found in %s" % short_path(a["path"])))
        elif all(ty.startswith(("jrsonnet_gcmodule::cc::RawCc<", "alloc::rc::Rc<")) for n_, ty in cells):
            obs.append(ok(RULE, key, stt, "memo cell `%s` is behind a shared pointer, clones share one cache" % cells[0][0]))
        else:
            n_, ty = [c for c in cells if not c[1].startswith(("jrsonnet_gcmodule::cc::RawCc<", "alloc::rc::Rc<"))][0]
            obs.append(bad(RULE, key, stt, "memo cell %s has type %s: the owner is Clone (get_lazy clones it), so each clone would get a private cache and elements are evaluated more than once" % (n_, ty)))
    for pth in want:
        if pth not in seen:
            obs.append(bad(RULE, "%s:shared" % short_path(pth), "", "%s not found" % pth))
    return obs


def check_object_locals_shared(prog):
    """one cached object-locals context per object, shared by all fields and the object's asserts"""
    path = "jrsonnet_evaluator::evaluate::evaluate_member_list_object"
    h = prog.hir.get(path)
    f = prog.fn(path)
    key = "object-locals:one-context"
    if h is None:
        return [bad(RULE, key, "", "evaluate_member_list_object not found")]
    news = list(H.calls(h["body"], path="jrsonnet_evaluator::val::CachedUnbound::<I, T>::new"))
    locs = list(H.calls(h["body"], path="jrsonnet_evaluator::evaluate::evaluate_object_locals"))
    problems = []
    if len(news) != 1 or len(locs) != 1:
        problems.append("expected exactly one CachedUnbound::new(evaluate_object_locals(..)) (found %d / %d): fields and asserts would each "
                        "evaluate the object locals again" % (len(news), len(locs)))
    else:
        # the let binding that holds it
        holder = None
        for n in H.nodes(h["body"], "let"):
            if n[2] is not None and any(c is news[0] for c in H.walk(n[2])):
                bs = H.pat_binds(n[1])
                if len(bs) == 1:
                    holder = bs[0][0]
        if holder is None:
            problems.append("the cached context is not bound to a local")
        else:
            # inside the block that declares it: every evaluate_field_member and ObjectAssert literal uses that local
            for blk in H.nodes(h["body"], "block"):
                decl = [n for n in blk[1] if H.tag(n) == "let" and [b[0] for b in H.pat_binds(n[1])] == [holder] and n[2] is not None
                        and any(c is news[0] for c in H.walk(n[2]))]
                if not decl:
                    continue
                for c in H.calls(blk, path="jrsonnet_evaluator::evaluate::evaluate_field_member"):
                    a = H.call_args(c)
                    if len(a) < 3 or H.expr_source_name(a[2]) != holder:
                        problems.append("a field is built with a context other than the shared `%s`" % holder)
                for sl in H.nodes(blk, "structlit"):
                    if sl[1][-1].endswith("ObjectAssert"):
                        for fname, fe in sl[2]:
                            if fname == "uctx" and H.expr_source_name(fe) != holder:
                                problems.append("object asserts get their own locals context instead of the shared `%s`" % holder)
    if problems:
        return [bad(RULE, key, site(f), "; ".join(sorted(set(problems))))]
    return [ok(RULE, key, site(f), "one CachedUnbound wraps evaluate_object_locals and is shared by every field and the asserts")]
