"""R-ARGSWAP: two arguments of the same type are not passed crosswise to parameters that carry each other's name
(`render(.., flags.sign, flags.blank)` into `fn render(.., blank: bool, sign: bool)`)."""
from ..mir import strip, show, short_path
from ..report import ok, bad, info, site, Floor
from . import arith

RULE = "R-ARGSWAP"


def arg_name(f, op):
    """the name the caller gives the value: a field name, or the debug name of a local / parameter"""
    d = strip(f.desc_op(op))
    while d[0] in ("ref", "deref", "cast"):
        d = d[1] if d[0] != "cast" else d[2]
    if d[0] == "field" and isinstance(d[2], str) and not d[2].isdigit():
        return d[2]
    if d[0] in ("param", "var"):
        return f.varnames.get(d[1])
    return None


def run(prog, pred=None, floor=None):
    obs = []
    n = 0
    for f in sorted(prog.fns.values(), key=lambda f: f.path):
        if not arith.in_scope(f) or arith.generated(f.exp) or (pred is not None and not pred(f)):
            continue
        k = 0
        for b, t in f.calls():
            if f.is_cleanup(b) or b not in f.live_blocks or arith.generated(t.get("exp") or []):
                continue
            callee = prog.fns.get(t.get("res") or t.get("fn") or "")
            if callee is None or callee.kind == "Closure":
                continue
            pn = callee.arg_names
            tys = t.get("argtys") or []
            args = t["args"]
            if len(pn) != len(args) or len(args) < 2:
                continue
            names = [arg_name(f, a) for a in args]
            n += 1
            for i in range(len(args)):
                for j in range(i + 1, len(args)):
                    if not names[i] or not names[j] or names[i] == names[j] or not pn[i] or not pn[j] or pn[i] == pn[j]:
                        continue
                    if i < len(tys) and j < len(tys) and tys[i] != tys[j]:
                        continue
                    if names[i] == pn[j] and names[j] == pn[i]:
                        k += 1
                        obs.append(bad(RULE, "%s->%s:%s<>%s" % (short_path(f.root or f.path), short_path(callee.path), pn[i], pn[j]), site(f, t["line"]),
                                       "%s passes `%s` as parameter `%s` and `%s` as parameter `%s` of %s: two arguments of type %s are swapped"
                                       % (short_path(f.root or f.path), names[i], pn[i], names[j], pn[j], short_path(callee.path), tys[i] if i < len(tys) else "?")))
    obs.append(ok(RULE, "calls", "", "%d calls of workspace functions with named arguments: no pair of same-typed arguments is passed crosswise" % n)
               if not any(o.status == "open" for o in obs) else info(RULE, "calls", "", "%d calls examined" % n))
    return obs, ([Floor(RULE, "calls with named arguments", n, floor)] if floor else []), {"argswap_calls": n}
