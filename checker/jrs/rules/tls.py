"""R-TLS: interpreter state that outlives one evaluation is restored on every exit."""
from ..mir import rel_fact, strip, show, short_path, contains
from ..report import ok, bad, info, site, Floor

RULE = "R-TLS"
EV = "jrsonnet_evaluator::"

# functions returning an RAII guard whose Drop undoes a thread-local change
GUARD_FNS = {
    EV + "stack::check_depth": "StackDepthGuard",
    EV + "stack::limit_stack_depth": "StackDepthLimitOverrideGuard",
    EV + "State::enter": "StateEnterGuard",
    EV + "State::try_enter": "StateEnterGuard",
    "jrsonnet_cli::MiscOpts::stack_size_override": "StackDepthLimitOverrideGuard",
}
# call sites allowed to discard/forget/forward the guard (reviewed)
GUARD_FORWARDERS = {
    EV + "stack::set_stack_depth_limit": "documented: C API set_max_stack keeps the limit (mem::forget)",
    EV + "State::enter": "forwards try_enter's guard to its caller",
    "jrsonnet_cli::MiscOpts::stack_size_override": "forwards limit_stack_depth's guard to its caller",
}


def run(prog):
    obs = []
    obs.extend(check_check_depth(prog))
    obs.extend(check_guard_drops(prog))
    obs.extend(check_guards_held(prog))
    obs.extend(check_run_assertions(prog))
    floors = [Floor(RULE, "obligations", len(obs), 8)]
    return obs, floors, {}


def set_calls(f, field):
    out = []
    for b, t in f.calls():
        if f.is_cleanup(b) or b not in f.live_blocks:
            continue
        c = t.get("res") or t.get("fn") or ""
        if c.endswith(("Cell::<T>::set", "Cell::<T>::replace")):
            d = strip(f.desc_op(t["args"][0]))
            if contains(d, lambda x: x[0] == "field" and x[2] == field):
                out.append((b, t))
    return out


def check_check_depth(prog):
    """the frame counter is incremented only on the path that hands out a guard"""
    key = "check_depth:increment-iff-guard"
    cands = [f for f in prog.fns.values() if f.path.startswith(EV + "stack::check_depth::{closure")]
    if not cands:
        return [bad(RULE, key, "", "check_depth closure not found")]
    f = cands[0]
    sets = set_calls(f, "current_depth")
    if not sets:
        return [bad(RULE, key, site(f), "check_depth never increments current_depth")]
    guard_blocks = {b for b in f.live_blocks for s in f.stmts(b)
                    if s[0] == "a" and s[2][0] == "agg" and s[2][2].endswith("StackDepthGuard")}
    err_blocks = {b for b in f.live_blocks for s in f.stmts(b)
                  if s[0] == "a" and s[2][0] == "agg" and s[2][2].endswith("StackOverflowError")}
    problems = []
    for b, t in sets:
        tgt = t.get("target")
        reach = set() if tgt in guard_blocks else ({tgt} | f.reach_from(tgt, removed_blocks=tuple(guard_blocks)))
        if reach & set(f.returns()):
            problems.append("a path increments current_depth and returns without a StackDepthGuard (the counter leaks one frame per stack overflow)")
        # the increment must be under the `current < max` edge
        lt = False
        for u, v, (d, val) in f.facts_at(b):
            r = rel_fact(d, val)
            # `current < max`, however it is spelled (`max > current`, `!(current >= max)`)
            if r and r[0] == "Lt" and contains(r[2], lambda x: x[0] == "field" and x[2] == "max_stack_size") \
                    and not contains(r[1], lambda x: x[0] == "field" and x[2] == "max_stack_size"):
                lt = True
        if not lt:
            problems.append("the increment is not dominated by the `current < max_stack_size` test")
    # the error path must not have set anything
    for eb in err_blocks:
        for b, t in sets:
            if eb in ({t.get("target")} | f.reach_from(t.get("target"))):
                problems.append("the StackOverflowError path runs after current_depth was modified")
    if problems:
        return [bad(RULE, key, site(f), "; ".join(sorted(set(problems))))]
    return [ok(RULE, key, site(f), "current_depth is incremented only under current < max and only together with a StackDepthGuard")]


def check_guard_drops(prog):
    obs = []
    want = [
        ("<%sstack::StackDepthGuard as core::ops::drop::Drop>::drop" % EV, "current_depth", "Sub"),
        ("<%sstack::StackDepthLimitOverrideGuard as core::ops::drop::Drop>::drop" % EV, "max_stack_size", None),
    ]
    for path, field, op in want:
        key = "%s:restores" % short_path(path)
        cl = [f for f in prog.fns.values() if f.path.startswith(path + "::{closure")]
        f = cl[0] if cl else prog.fn(path)
        if f is None:
            obs.append(bad(RULE, key, "", "%s not found" % path))
            continue
        sets = set_calls(f, field)
        good = False
        for b, t in sets:
            v = strip(f.desc_op(t["args"][1]))
            if op == "Sub":
                if contains(v, lambda x: x[0] == "bin" and x[1] == "Sub" and x[3] == ("const", 1)):
                    good = True
            else:
                # the saved limit: a field of the guard (captured into the closure environment)
                if contains(v, lambda x: (x[0] == "field" and x[2] == "old_limit") or x[0] == "env"):
                    good = True
        obs.append(ok(RULE, key, site(f), "Drop writes the inverse value back to %s" % field) if good else
                   bad(RULE, key, site(f), "Drop for the guard does not restore %s" % field))
    # StateEnterGuard::drop clears STATE
    path = "<%sStateEnterGuard as core::ops::drop::Drop>::drop" % EV
    cl = [f for f in prog.fns.values() if f.path.startswith(path + "::{closure")]
    key = "StateEnterGuard:restores"
    if cl:
        f = cl[0]
        none = any(s[0] == "a" and s[2][0] == "agg" and s[2][3] == "None" for b in f.live_blocks for s in f.stmts(b))
        obs.append(ok(RULE, key, site(f), "Drop resets the entered state to None") if none else
                   bad(RULE, key, site(f), "Drop for StateEnterGuard does not clear the entered state"))
    else:
        obs.append(bad(RULE, key, "", "Drop for StateEnterGuard not found"))
    return obs


def check_guards_held(prog):
    """the value returned by a guard function is bound to a named local (lives to the end of the scope),
    not dropped at once (`let _ = ...`) or forgotten"""
    obs = []
    n_sites = 0
    for f in sorted(prog.fns.values(), key=lambda f: f.path):
        for b, t in f.calls():
            if f.is_cleanup(b) or b not in f.live_blocks:
                continue
            c = t.get("res") or t.get("fn") or ""
            if c not in GUARD_FNS:
                continue
            if f.crate.startswith(("tests", "xtask")):
                continue
            n_sites += 1
            key = "%s:holds(%s)" % (f.path, short_path(c))
            st = site(f, t["line"])
            if f.path in GUARD_FORWARDERS and (GUARD_FNS.get(f.path) or f.path == EV + "stack::set_stack_depth_limit"):
                obs.append(ok(RULE, key, st, "reviewed: " + GUARD_FORWARDERS[f.path], nontrivial=False))
                continue
            dest = t["dest"][0]
            held = None
            for l, name in f.varnames.items():
                if name in ("_", "val", "residual") or l <= f.arg_count:
                    continue  # `val`/`residual` are the bindings of the `?` desugaring, not user variables
                d = f.desc_local(l)
                if mentions_local_call(f, d, dest, c):
                    held = name
            # returned to the caller?
            if held is None and mentions_local_call(f, f.desc_local(0), dest, c):
                held = "<return value>"
            if held:
                obs.append(ok(RULE, key, st, "guard bound to `%s` until the end of its scope" % held))
            else:
                obs.append(bad(RULE, key, st, "the %s returned by %s is not bound to a named local: it is dropped immediately and the "
                               "state change is undone before the protected code runs" % (GUARD_FNS[c], short_path(c))))
    obs.append(info(RULE, "guard-sites", "", "%d guard-returning call sites" % n_sites))
    return obs


def mentions_local_call(f, d, dest, callee):
    """does descriptor d derive from the call result stored in local `dest`?"""
    sd = f.single_def(dest)
    target = None
    if sd and sd[0] == "call":
        target = sd[4]
    def walk(x):
        if isinstance(x, tuple):
            if x and x[0] == "call" and (x[1] == callee or (len(x) > 3 and x[3] == callee)):
                return True
            return any(walk(y) for y in x if isinstance(y, tuple))
        return False
    return walk(d)


def check_run_assertions(prog):
    key = "run_assertions:finish-on-all-exits"
    f = prog.fn(EV + "obj::ObjValue::run_assertions")
    if f is None:
        return [bad(RULE, key, "", "run_assertions not found")]
    for a in ("obj::start_asserting", "obj::finish_asserting"):
        prog.fn(EV + a)          # registers the two helpers as anchors: a re-homed helper is analysed under this name
    starts = [(b, t) for b, t in f.calls() if (t.get("res") or "") == EV + "obj::start_asserting" and not f.is_cleanup(b)]
    fins = {b for b, t in f.calls() if (t.get("res") or "") == EV + "obj::finish_asserting" and not f.is_cleanup(b)}
    if len(starts) != 1:
        return [bad(RULE, key, site(f), "expected one start_asserting call, found %d" % len(starts))]
    sb, stt = starts[0]
    # error edges covered by an inspect_err closure that calls finish_asserting
    covered_break = set()
    for b, t in f.calls():
        if (t.get("fn") or "").endswith("Result::<T, E>::inspect_err"):
            cl = None
            for a in t["args"]:
                d = f.desc_op(a)
                if d[0] == "agg" and d[1] == "closure":
                    cl = prog.fn(d[2])
            if cl and any((tt.get("res") or "") == EV + "obj::finish_asserting" for bb, tt in cl.calls()):
                # the `?` on its result: Break edge of the following discriminant switch
                dest = t["dest"][0]
                for u, v, (d, val) in f._cond_edge_list():
                    if d[0] == "discr" and isinstance(val, tuple) and val[0] == "variant" and val[1] == "Break":
                        if contains(d, lambda x: x and x[0] == "call" and x[1].endswith("inspect_err")):
                            covered_break.add((u, v))
    # from the "started" edge, every path to return passes finish_asserting or a covered error edge
    # which successor of start_asserting's test is the started edge?  `if !start_asserting(self) { return Ok(()) }`
    tgt = stt.get("target")
    started = None
    for u, v, (d, val) in f._cond_edge_list():
        sd = strip(d)
        if sd[0] == "call" and sd[1] == EV + "obj::start_asserting" and val is True:
            started = v
        if sd[0] == "un" and sd[1] == "Not" and sd[2][0] == "call" and sd[2][1] == EV + "obj::start_asserting" and val is False:
            started = v
    if started is None:
        return [bad(RULE, key, site(f), "the result of start_asserting is not tested")]
    seen = {started}
    stack = [started]
    leak = False
    rets = set(f.returns())
    while stack:
        x = stack.pop()
        if x in fins:
            continue
        if x in rets:
            leak = True
            break
        for y in f.succs[x]:
            if (x, y) in covered_break:
                continue
            if y not in seen:
                seen.add(y)
                stack.append(y)
    obs = []
    if leak or not fins:
        obs.append(bad(RULE, key, site(f), "a path from a successful start_asserting to return calls finish_asserting neither directly nor through the "
                       "inspect_err handler: the object would stay in RUNNING_ASSERTIONS and later programs on this thread skip its assertions"))
    else:
        obs.append(ok(RULE, key, site(f), "every exit after start_asserting passes finish_asserting (error exits through inspect_err)"))
    # assertions_ran.set(true) only after all assertions passed
    key2 = "run_assertions:ran-flag"
    sets = []
    for b, t in f.calls():
        c = t.get("res") or t.get("fn") or ""
        if c.endswith("Cell::<T>::set") and not f.is_cleanup(b):
            d = strip(f.desc_op(t["args"][0]))
            if contains(d, lambda x: x[0] == "field" and x[2] == "assertions_ran"):
                sets.append(b)
    bad_set = False
    for (u, v) in covered_break:
        reach = {v} | f.reach_from(v)
        if set(sets) & reach:
            bad_set = True
    if sets and not bad_set:
        obs.append(ok(RULE, key2, site(f), "assertions_ran is set only on the all-passed path"))
    else:
        obs.append(bad(RULE, key2, site(f), "assertions_ran is %s" % ("set on a failing path" if bad_set else "never set")))
    return obs
