"""R-IMPORT: file cache typestate of State::import_resolved*, resolution order, canonical cache keys."""
from .. import hir as H
from ..mir import strip, show, short_path, contains
from ..report import ok, bad, info, site, Floor
from . import memo

RULE = "R-IMPORT"
EV = "jrsonnet_evaluator::"


def field_stores(f, field):
    """(block, const value) of assignments `place.field = const`"""
    out = []
    for b in sorted(f.live_blocks):
        if f.is_cleanup(b):
            continue
        for s in f.stmts(b):
            if s[0] == "a" and any(isinstance(p, str) and p.endswith(":" + field) for p in s[1][1:]):
                rv = s[2]
                val = None
                if rv[0] == "use" and rv[1][0] == "c":
                    val = rv[1][2]
                out.append((b, val, s))
    return out


def run(prog):
    obs = []
    obs.extend(check_import_resolved(prog))
    for name in ("import_resolved_str", "import_resolved_bin", "import_resolved"):
        obs.extend(check_load_once(prog, name))
    obs.extend(check_str_utf8(prog))
    obs.extend(check_resolve_order(prog))
    obs.extend(check_canonical(prog))
    obs.extend(check_cli_paths(prog))
    floors = [Floor(RULE, "obligations", len(obs), 10)]
    return obs, floors, {}


def filedata_fields(prog):
    """names of FileData's in-progress flag (its bool field) and cached value (its Option<Val> field), whatever they are called"""
    flag, value = "evaluating", "evaluated"
    for unit, a in prog.adts():
        if a["path"] == EV + "FileData":
            bools = [x["name"] for v in a["variants"] for x in v["fields"] if x["ty"] == "bool"]
            vals = [x["name"] for v in a["variants"] for x in v["fields"] if x["ty"].startswith("core::option::Option<") and x["ty"].endswith("val::Val>")]
            if len(bools) == 1:
                flag = bools[0]
            if len(vals) == 1:
                value = vals[0]
    return flag, value


def check_import_resolved(prog):
    obs = []
    FLAG, VALUE = filedata_fields(prog)
    f = prog.fn(EV + "State::import_resolved")
    if f is None:
        return [bad(RULE, "import_resolved:anchor", "", "State::import_resolved not found")]
    st = site(f)
    ks = [b for b, t in f.calls() if (t.get("res") or "") == EV + "evaluate::evaluate" and not f.is_cleanup(b)]
    if len(ks) != 1:
        return [bad(RULE, "import_resolved:compute", st, "expected one evaluate() call, found %d" % len(ks))]
    k = ks[0]
    # evaluated hit: the Some edge of `file.evaluated` cannot reach evaluate
    hit = False
    for u, v, (d, val) in f._cond_edge_list():
        if d[0] == "discr" and isinstance(val, tuple) and val[0] == "variant" and val[1] == "Some":
            if contains(strip(d[1]), lambda x: x[0] == "field" and x[2] == VALUE):
                if not (v == k or k in f.reach_from(v)):
                    hit = True
    obs.append(ok(RULE, "import_resolved:hit", st, "an already evaluated file is returned without evaluating again") if hit else
               bad(RULE, "import_resolved:hit", st, "`file.evaluated` is not consulted before evaluating: a file would be evaluated once per import site"))
    # cycle: evaluating == true edge -> InfiniteRecursionDetected, cannot reach evaluate
    cyc = False
    for u, v, (d, val) in f._cond_edge_list():
        sd = strip(d)
        if sd[0] == "field" and sd[2] == FLAG and val is True:
            region = {v} | f.reach_from(v)
            err = any(s[0] == "a" and s[2][0] == "agg" and s[2][3] == "InfiniteRecursionDetected" for b in region for s in f.stmts(b))
            if err and k not in region:
                cyc = True
    obs.append(ok(RULE, "import_resolved:cycle", st, "a file that is being evaluated is reported as InfiniteRecursionDetected") if cyc else
               bad(RULE, "import_resolved:cycle", st, "the `evaluating` flag does not stop a strict import cycle before evaluate()"))
    # marker and reset
    stores = field_stores(f, FLAG)
    trues = [b for b, v, s in stores if v in (1, True)]
    falses = {b for b, v, s in stores if v in (0, False)}
    marker = any(b == k or k in f.reach_from(b) for b in trues)
    obs.append(ok(RULE, "import_resolved:marker", st, "evaluating = true is stored before evaluate()") if marker else
               bad(RULE, "import_resolved:marker", st, "evaluating = true is not stored before evaluate()"))
    kt = f.term(k).get("target")
    leak = False
    if kt is not None and kt not in falses:
        reach = {kt} | f.reach_from(kt, removed_blocks=tuple(falses))
        if reach & set(f.returns()):
            leak = True
    if not falses or leak:
        obs.append(bad(RULE, "import_resolved:reset", st, "a path from evaluate() to return (e.g. the error path of `?`) skips `evaluating = false`: "
                       "after one failed evaluation every later import of that file reports infinite recursion"))
    else:
        obs.append(ok(RULE, "import_resolved:reset", st, "every path from evaluate() to return resets evaluating = false (success and error)"))
    # evaluated stored only on success, and with the value
    ev_stores = field_stores(f, VALUE)
    obs.append(ok(RULE, "import_resolved:store", st, "the value is cached in file.evaluated") if ev_stores else
               bad(RULE, "import_resolved:store", st, "the evaluated value is never cached"))
    live = memo.guards_live_at(f, k)
    # file_cache() returns the RefMut: treat calls to State::file_cache like borrow_mut
    live2 = cache_guard_live(f, k)
    if live or live2:
        obs.append(bad(RULE, "import_resolved:borrow", st, "the file_cache guard is still live at evaluate(): a nested import would panic (BorrowMutError)"))
    else:
        obs.append(ok(RULE, "import_resolved:borrow", st, "the file_cache guard is dropped before evaluate()"))
    return obs


def cache_guard_live(f, k):
    for b, t in f.calls():
        if f.is_cleanup(b) or b not in f.live_blocks:
            continue
        if (t.get("res") or "") != EV + "State::file_cache":
            continue
        g = t["dest"][0] if len(t["dest"]) == 1 else None
        if g is None:
            continue
        drops = set()
        alias = {g}
        changed = True
        while changed:
            changed = False
            for bb in f.live_blocks:
                for s in f.stmts(bb):
                    if s[0] == "a" and len(s[1]) == 1 and s[2][0] == "use" and s[2][1][0] == "mv" and len(s[2][1][1]) == 1 \
                            and s[2][1][1][0] in alias and s[1][0] not in alias:
                        alias.add(s[1][0])
                        changed = True
        for bb in f.live_blocks:
            tt = f.term(bb)
            if isinstance(tt, list) and tt[0] == "drop" and len(tt[1]) == 1 and tt[1][0] in alias:
                drops.add(bb)
            if isinstance(tt, dict) and tt["k"] == "call" and (tt.get("fn") or "") == "core::mem::drop":
                if tt["args"] and tt["args"][0][0] == "mv" and len(tt["args"][0][1]) == 1 and tt["args"][0][1][0] in alias:
                    drops.add(bb)
        start = t.get("target")
        if start is None or start in drops:
            continue
        reach = {start} | f.reach_from(start, removed_blocks=tuple(drops))
        if k in reach and k not in drops:
            return True
    return False


def check_load_once(prog, name):
    """load_file_contents is called only on the Vacant edge of the cache entry; a failed load inserts nothing"""
    f = prog.fn(EV + "State::" + name)
    key = "%s:load-once" % name
    if f is None:
        return [bad(RULE, key, "", "%s not found" % name)]
    is_load = lambda c: c.endswith("ImportResolver::load_file_contents")
    # the read may sit in a private helper of State (e.g. one shared by the import functions)
    loads = [b for b, t in f.calls() if not f.is_cleanup(b) and (is_load(t.get("fn") or "") or
             ((t.get("res") or t.get("fn") or "").startswith(EV + "State::") and (t.get("res") or t.get("fn")) != f.path and
              prog.reaches_call(t.get("res") or t.get("fn"), is_load, depth=1)))]
    if len(loads) != 1:
        return [bad(RULE, key, site(f), "expected one load_file_contents call, found %d" % len(loads))]
    lb = loads[0]
    vac = False
    for u, v, fact in f.facts_at(lb):
        d, val = fact
        if d[0] == "discr" and "Entry" in d[2] and isinstance(val, tuple) and val[0] == "variant" and val[1] == "Vacant":
            vac = True
    inserts = [b for b, t in f.calls() if "VacantEntry" in (t.get("fn") or "") and (t.get("fn") or "").endswith("::insert") and not f.is_cleanup(b)]
    # insert must come after the load succeeded (reachable only through the load block)
    after = all(f.block_dominates(lb, b) for b in inserts) and bool(inserts)
    if vac and after:
        return [ok(RULE, key, site(f), "the file is read only when its cache entry is Vacant, and inserted only after a successful read")]
    return [bad(RULE, key, site(f), "load_file_contents is %s%s" % ("" if vac else "not restricted to the Vacant cache edge (file read more than once)",
                                                                   "" if after else "; the cache entry is inserted before the read succeeded"))]


def check_str_utf8(prog):
    """importstr of a cached file whose bytes are not UTF-8 is an error, not a default value (the file may have been loaded by importbin first)"""
    f = prog.fn(EV + "State::import_resolved_str")
    key = "import_resolved_str:utf8-error"
    if f is None:
        return [bad(RULE, key, "", "import_resolved_str not found")]
    good = False
    for b, t in f.calls():
        c = t.get("fn") or ""
        if c.endswith(("Option::<T>::ok_or_else", "Option::<T>::ok_or")) and not f.is_cleanup(b):
            d = strip(f.desc_op(t["args"][0]))
            if contains(d, lambda x: x[0] == "call" and str(x[1]).endswith("get_string")):
                good = True
    # or an explicit match whose None edge constructs the error
    if not good:
        for u, v, (d, val) in f._cond_edge_list():
            sd = strip(d)
            if sd[0] == "discr" and val == ("variant", "None") and contains(sd, lambda x: x[0] == "call" and str(x[1]).endswith("get_string")):
                reach = {v} | f.reach_from(v)
                if any(s2[0] == "a" and s2[2][0] == "agg" and str(s2[2][3]) == "ImportBadFileUtf8" for r in reach for s2 in f.stmts(r)):
                    good = True
    return [ok(RULE, key, site(f), "a cached file without a string view yields ImportBadFileUtf8") if good else
            bad(RULE, key, site(f), "the result of FileData::get_string() is not turned into ImportBadFileUtf8 when it is None: importstr of a non-UTF-8 file "
                "that was loaded by importbin first evaluates to a default value")]


def check_resolve_order(prog):
    """importer directory first, then library paths front to back"""
    path = "<%simport::FileImportResolver as %simport::ImportResolver>::resolve_from" % (EV, EV)
    f = prog.fn(path)
    h = prog.hir.get(path)
    key = "resolve_from:order"
    if f is None or h is None:
        return [bad(RULE, key, "", "FileImportResolver::resolve_from not found")]
    # MIR: the check_path call on `direct` dominates the loop over library_paths
    checks = [(b, t) for b, t in f.calls() if (t.get("res") or "") == EV + "import::check_path" and not f.is_cleanup(b)]
    direct_b = None
    lib_b = None
    for b, t in checks:
        d = strip(f.desc_op(t["args"][0]))
        if contains(d, lambda x: x[0] == "call" and x[1].endswith("::next")) or contains(d, lambda x: x[0] == "var" and x[2] == "cloned"):
            lib_b = b
    loops = list(H.for_loops(h["body"]))
    lib_loop = [l for l in loops if any(H.tag(x) == "field" and x[2] == "library_paths" for x in H.walk(l[0]))]
    problems = []
    if len(lib_loop) != 1:
        problems.append("no single loop over self.library_paths")
    else:
        it = lib_loop[0][0]
        if any(True for _ in H.calls(it, path="core::iter::traits::iterator::Iterator::rev")):
            problems.append("library paths are searched back to front")
        body = lib_loop[0][2]
        in_loop = [c for c in H.calls(body, path=EV + "import::check_path")]
        if not in_loop:
            problems.append("the library loop does not call check_path")
    # the direct check comes first: in HIR, a check_path call on `direct` precedes the loop in the same block
    top = h["body"]
    order = []
    for x in H.walk(top):
        if H.tag(x) == "call" and H.def_path(x[1]) == EV + "import::check_path":
            a = H.call_args(x)
            order.append(H.expr_source_name(a[0]) if a else None)
    # last two check_path calls in source order: direct, then cloned (inside the loop)
    if len(order) < 2 or order[-2] != "direct" or order[-1] != "cloned":
        problems.append("check_path calls are made on %s (expected ..., direct, cloned)" % order)
    if problems:
        return [bad(RULE, key, site(f), "; ".join(problems))]
    return [ok(RULE, key, site(f), "importer-relative path is checked first, then library_paths front to back")]


def check_canonical(prog):
    """the cache key of a regular file is its canonical path, unconditionally"""
    f = prog.fn(EV + "import::check_path")
    key = "check_path:canonical"
    if f is None:
        return [bad(RULE, key, "", "check_path not found")]
    news = [(b, t) for b, t in f.calls() if (t.get("res") or "").endswith("SourceFile::new") and not f.is_cleanup(b)]
    if not news:
        return [bad(RULE, key, site(f), "no SourceFile is constructed in check_path")]
    problems = []
    for b, t in news:
        d = strip(f.desc_op(t["args"][0]))
        if not contains(d, lambda x: x[0] == "call" and x[1].endswith("Path::canonicalize")):
            problems.append("a SourceFile is built from a non-canonical path (%s)" % show(d)[:80])
    if len(news) != 1:
        problems.append("%d SourceFile construction sites (a conditional canonicalisation splits the cache key)" % len(news))
    if problems:
        return [bad(RULE, key, site(f), "; ".join(problems) + ": the same file reached through a symlink or another spelling would be read and evaluated twice")]
    return [ok(RULE, key, site(f), "the only SourceFile is built from path.canonicalize()")]


def check_cli_paths(prog):
    """-J reversed (right-most first), then JSONNET_PATH in order"""
    f = prog.fn("jrsonnet_cli::MiscOpts::import_resolver")
    key = "cli:jpath-order"
    if f is None:
        return [bad(RULE, key, "", "MiscOpts::import_resolver not found")]
    # reversal of the -J list: in place (`v.reverse()`) or while copying (`iter().rev()`)
    rev = [b for b, t in f.calls() if ((t.get("fn") or "").endswith("<impl [T]>::reverse") or (t.get("fn") or "").endswith("Iterator::rev")) and not f.is_cleanup(b)]
    ext = [b for b, t in f.calls() if (t.get("fn") or "").endswith("Extend::extend") and not f.is_cleanup(b)]
    if len(rev) != 1 or len(ext) != 1:
        return [bad(RULE, key, site(f), "expected one reverse() and one extend(JSONNET_PATH), found %d / %d" % (len(rev), len(ext)))]
    # reverse must not be reachable after extend
    if rev[0] in f.reach_from(ext[0]) or not (ext[0] in f.reach_from(rev[0])):
        return [bad(RULE, key, site(f), "the -J list is reversed after JSONNET_PATH was appended: JSONNET_PATH entries would take priority over -J")]
    # reverse applies to the clone of self.jpath
    return [ok(RULE, key, site(f), "-J list reversed first, JSONNET_PATH entries appended afterwards")]
