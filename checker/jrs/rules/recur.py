"""R-RECUR: every recursion cycle of the interpreter passes a frame check (stack::check_depth via in_frame /
in_description_frame) or a stack-growth point (ensure_sufficient_stack -> stacker::maybe_grow).

Call graph over resolved callees; unresolved trait-method calls fan out to every workspace impl; a closure handed
directly to a function is invoked by that function (so a closure given to in_frame is only reachable through it).
Guard functions are removed from the graph; any remaining non-trivial SCC is an unguarded recursion."""
import re
import sys

import os

RECORD = {}

from ..mir import short_path
from ..report import ok, bad, info, site, Floor
from . import arith

RULE = "R-RECUR"
EV = "jrsonnet_evaluator::"
GUARDS = (EV + "in_frame", EV + "in_description_frame", EV + "evaluate::ensure_sufficient_stack", EV + "stack::check_depth")
SCOPE = ("jrsonnet_evaluator", "jrsonnet_stdlib", "jrsonnet_ir", "jrsonnet_ir_parser", "jrsonnet_cli", "jrsonnet", "jsonnet", "jrsonnet_interner", "jrsonnet_lexer")


def build_graph(prog, scope=SCOPE):
    fns = {p: f for p, f in prog.fns.items() if f.crate.split(".")[0] in scope and not arith.generated(f.exp)}
    impls_by_trait_method = {}
    for p, f in fns.items():
        if f.impl_trait:
            impls_by_trait_method.setdefault((f.impl_trait, p.rsplit("::", 1)[1]), []).append(p)
    edges = {p: set() for p in fns}
    for p, f in fns.items():
        closure_locals = {}
        for b in f.live_blocks:
            for s in f.stmts(b):
                if s[0] == "a" and s[2][0] == "agg" and s[2][1] == "closure" and len(s[1]) == 1:
                    closure_locals[s[1][0]] = s[2][2]
        handed = set()
        for b, t in f.calls():
            if f.is_cleanup(b) or b not in f.live_blocks:
                continue
            callee = t.get("res") or t.get("fn")
            targets = []
            if callee in fns:
                targets = [callee]
            elif t.get("trait") and not t.get("res"):
                name = (t.get("fn") or "").rsplit("::", 1)[-1]
                targets = impls_by_trait_method.get((t["trait"], name), [])
            elif t.get("ik") == "virtual" and t.get("trait"):
                name = (t.get("fn") or "").rsplit("::", 1)[-1]
                targets = impls_by_trait_method.get((t["trait"], name), [])
            fanout = not (callee in fns)
            for tg in targets:
                if fanout and tg == p:
                    continue  # generic / dyn dispatch of the same trait method from a wrapper impl: not a structural self-call
                edges[p].add(tg)
            # closures passed as arguments
            for a in t["args"]:
                if a[0] in ("mv", "cp") and len(a[1]) == 1:
                    l = a[1][0]
                    # follow one move
                    src = l
                    sd = f.single_def(l)
                    if sd and sd[0] == "s" and sd[4][0] == "use" and sd[4][1][0] in ("mv", "cp") and len(sd[4][1][1]) == 1:
                        src = sd[4][1][1][0]
                    if sd and sd[0] == "s" and sd[4][0] == "ref" and len(sd[4][2]) == 1:
                        src = sd[4][2][0]
                    cl = closure_locals.get(src) or closure_locals.get(l)
                    if cl and cl in fns:
                        handed.add(cl)
                        if callee in fns:
                            edges[callee].add(cl)
                        else:
                            edges[p].add(cl)
        for l, cl in closure_locals.items():
            if cl in fns and cl not in handed:
                edges[p].add(cl)
    return fns, edges


def sccs(nodes, edges):
    sys.setrecursionlimit(100000)
    index = {}
    low = {}
    onst = set()
    st = []
    out = []
    counter = [0]

    def strong(v):
        # iterative Tarjan
        work = [(v, iter(sorted(edges.get(v, ()))))]
        index[v] = low[v] = counter[0]
        counter[0] += 1
        st.append(v)
        onst.add(v)
        while work:
            node, it = work[-1]
            advanced = False
            for w in it:
                if w not in nodes:
                    continue
                if w not in index:
                    index[w] = low[w] = counter[0]
                    counter[0] += 1
                    st.append(w)
                    onst.add(w)
                    work.append((w, iter(sorted(edges.get(w, ())))))
                    advanced = True
                    break
                elif w in onst:
                    low[node] = min(low[node], index[w])
            if advanced:
                continue
            work.pop()
            if work:
                parent = work[-1][0]
                low[parent] = min(low[parent], low[node])
            if low[node] == index[node]:
                comp = []
                while True:
                    w = st.pop()
                    onst.discard(w)
                    comp.append(w)
                    if w == node:
                        break
                out.append(comp)
    for v in sorted(nodes):
        if v not in index:
            strong(v)
    return out


def run(prog):
    reviewed = arith.load_table("recur_reviewed.json")
    fns, edges = build_graph(prog)
    nodes = set(fns) - set(GUARDS)
    comps = [c for c in sccs(nodes, edges) if len(c) > 1 or c[0] in edges.get(c[0], ())]
    obs = []
    # the guards themselves
    for g in GUARDS[:3]:
        f = prog.fn(g)
        key = "%s:guards" % short_path(g)
        if f is None:
            obs.append(bad(RULE, key, "", "guard function %s not found" % g))
            continue
        cs = {(t.get("res") or t.get("fn") or "") for b, t in f.calls()}
        if g.endswith("ensure_sufficient_stack"):
            good = any(c.startswith("stacker::maybe_grow") for c in cs)
        else:
            good = EV + "stack::check_depth" in cs
        obs.append(ok(RULE, key, site(f), "calls %s" % ("stacker::maybe_grow" if g.endswith("stack") else "check_depth")) if good else
                   bad(RULE, key, site(f), "%s no longer performs its stack check" % short_path(g)))
    for c in sorted(comps, key=lambda c: sorted(c)[0]):
        named = sorted(x for x in c if "{closure" not in x) or sorted(c)
        key = named[0]
        st = site(fns[named[0]])
        members = ", ".join(short_path(x) for x in named[:6]) + (" ..." if len(named) > 6 else "")
        if key in reviewed:
            e = reviewed[key]
            if e.get("class") == "finding":
                obs.append(bad(RULE, key, st, "recursion cycle without frame check or stack growth: %s -- %s" % (members, e["reason"])))
            else:
                obs.append(ok(RULE, key, st, "reviewed (%s): %s" % (e.get("class"), e["reason"])))
        else:
            obs.append(bad(RULE, key, st, "recursion cycle {%s} passes neither check_depth (in_frame / in_description_frame) nor ensure_sufficient_stack: "
                           "input-controlled depth overflows the native stack instead of reporting a stack-overflow error" % members))
    # evaluate itself must sit on a guarded cycle: evaluate -> ... -> evaluate only through guards
    floors = [Floor(RULE, "functions in the call graph", len(fns), 1500)]
    return obs, floors, {"call_graph_nodes": len(fns), "call_graph_edges": sum(len(v) for v in edges.values()), "unguarded_sccs": len(comps)}


def guarded_closures(prog, hosts):
    """closures handed (directly) to a guard function by any of the hosts"""
    guarded = set()
    for h in hosts:
        cl = {}
        for b in h.live_blocks:
            for s in h.stmts(b):
                if s[0] == "a" and s[2][0] == "agg" and s[2][1] == "closure" and len(s[1]) == 1:
                    cl[s[1][0]] = s[2][2]
        for b, t in h.calls():
            c = t.get("res") or t.get("fn")
            if c in GUARDS:
                for a in t["args"]:
                    if a[0] in ("mv", "cp") and len(a[1]) == 1:
                        l = a[1][0]
                        sd = h.single_def(l)
                        src = l
                        if sd and sd[0] == "s" and sd[4][0] == "use" and sd[4][1][0] in ("mv", "cp") and len(sd[4][1][1]) == 1:
                            src = sd[4][1][1][0]
                        for x in (src, l):
                            if cl.get(x):
                                guarded.add(cl[x])
    return guarded


def run_frame(prog, pred=None):
    """R-FRAME: a function that calls itself (directly or from its own closures) does so only from a closure handed to
    in_frame / in_description_frame / ensure_sufficient_stack, or is reviewed as structurally bounded."""
    RULE2 = "R-FRAME"
    reviewed = arith.load_table("recur_reviewed.json")
    obs = []
    n = 0
    # a reviewed entry whose function no longer exists (renamed / moved) may be taken over once by an unreviewed one of the same module
    moved = arith.MovedSites(reviewed, set(prog.fns))
    for p, f in sorted(prog.fns.items()):
        if f.kind == "Closure" or not arith.in_scope(f) or arith.generated(f.exp):
            continue
        if pred is not None and not pred(f):
            continue
        hosts = [f] + [c for c in prog.fns.values() if c.kind == "Closure" and c.root == p]
        rec = []
        for h in hosts:
            for b, t in h.calls():
                if (t.get("res") or t.get("fn")) == p and not h.is_cleanup(b) and b in h.live_blocks:
                    rec.append((h, t))
        if not rec:
            continue
        n += 1
        guarded = guarded_closures(prog, hosts)
        unguarded = [(h, t) for h, t in rec if not any(h.path == x or h.path.startswith(x + "::") for x in guarded)]
        key = p
        st = site(f)
        if not unguarded:
            obs.append(ok(RULE2, key, st, "%d recursive call(s), each inside a closure handed to in_frame / in_description_frame / ensure_sufficient_stack" % len(rec)))
        elif key in reviewed and reviewed[key].get("class") == "structural":
            obs.append(ok(RULE2, key, st, "reviewed structural recursion: " + reviewed[key]["reason"]))
        elif key not in reviewed and moved.take(key, lambda e: e.get("class") == "structural") is not None:
            obs.append(ok(RULE2, key, st, "reviewed structural recursion (function renamed or moved within its module)"))
        else:
            why = reviewed.get(key, {}).get("reason")
            # a recorded finding covers the unguarded recursive calls counted when it was reviewed; one more (a guard removed
            # from another arm of the same function) is a different violation with its own key
            nrev = reviewed.get(key, {}).get("unguarded_sites")
            if nrev is not None and len(unguarded) > nrev:
                obs.append(bad(RULE2, key + ":additional-unguarded-call", site(f, unguarded[-1][1]["line"]),
                               "%s has %d unguarded recursive call sites, %d were reviewed: a frame check / stack-growth guard was removed from a "
                               "recursive call" % (short_path(p), len(unguarded), nrev)))
            if os.environ.get("JRS_RECORD_FRAME_SITES") is not None:
                RECORD[key] = len(unguarded)
            obs.append(bad(RULE2, key, site(f, unguarded[0][1]["line"]),
                           "%s calls itself (%d site(s)) without passing a frame check or a stack-growth point: recursion depth is controlled by the %s and "
                           "overflows the native stack (SIGABRT) instead of reporting a stack-overflow error" % (short_path(p), len(unguarded), why or "input")))
    return obs, [Floor(RULE2, "self-recursive functions", n, 12 if pred is None else 1)], {"self_recursive_functions": n}


VIEW_ACCESSORS = ("get", "get_lazy", "get_cheap", "is_cheap", "len")


def run_views(prog):
    """R-FRAME(view): an ArrayLike accessor of a view type that forwards to an accessor of its inner ArrValue recurses once per level
    of view nesting (the inner value may be another view); nesting depth is program data (a + [x] in a loop, repeated slicing,
    reversing, mapping), so the forwarding call has to sit behind a frame check / stack-growth point."""
    RULE2 = "R-FRAME"
    obs = []
    per_type = {}
    for p, f in sorted(prog.fns.items()):
        if f.kind == "Closure" or not f.impl_trait or not f.impl_trait.endswith("arr::spec::ArrayLike"):
            continue
        m = p.rsplit("::", 1)[1]
        if m not in VIEW_ACCESSORS:
            continue
        hosts = [f] + [c for c in prog.fns.values() if c.kind == "Closure" and c.root == p]
        guarded = guarded_closures(prog, hosts)
        for h in hosts:
            for b, t in h.calls():
                c = t.get("fn") or ""
                if c.startswith("jrsonnet_evaluator::arr::ArrValue::") and c.rsplit("::", 1)[1] in VIEW_ACCESSORS and not h.is_cleanup(b) and b in h.live_blocks:
                    # `len` of the inner array from a non-len accessor does not nest (len is not forwarded by views that cache it) unless the type's own len forwards
                    if c.endswith("::len") and m != "len":
                        continue
                    ok_here = any(h.path == x or h.path.startswith(x + "::") for x in guarded)
                    per_type.setdefault(f.self_ty, []).append((m, c.rsplit("::", 1)[1], ok_here, f, t["line"]))
    from . import arith
    agg, _mut = arith._agg_sites(prog)

    def built_by_interpreter(ty):
        """is the view type constructed by anything outside the array module's own API (directly or through its constructors)?  A
        view nothing builds cannot be nested by a program"""
        seen, work = set(), [g.path for g, b, st in agg.get(ty, [])]
        if not work:
            return True           # construction not visible (generic / macro): assume used
        while work:
            q = work.pop()
            if q in seen:
                continue
            seen.add(q)
            root = prog.fns[q].root if q in prog.fns and prog.fns[q].kind == "Closure" and prog.fns[q].root else q
            if not re.match(r"<?jrsonnet_evaluator::arr::", root):
                return True
            for cf, b, t in prog.callers.get(root, []):
                work.append(cf.path)
        return False
    for ty, calls in sorted(per_type.items()):
        key = "view:%s" % short_path(ty)
        bad_calls = [c for c in calls if not c[2]]
        f = calls[0][3]
        if bad_calls and not built_by_interpreter(ty):
            obs.append(info(RULE2, key, site(f), "%s forwards accessors without a frame check, but nothing outside the array module constructs it: "
                            "no program can nest it" % short_path(ty)))
        elif not bad_calls:
            obs.append(ok(RULE2, key, site(f), "%d forwarding accessor call(s), all behind a frame check" % len(calls)))
        else:
            obs.append(bad(RULE2, key, site(bad_calls[0][3], bad_calls[0][4]),
                           "%s forwards %s to the inner array without a frame check or stack-growth point: views nest as deep as the program makes them "
                           "(e.g. `a + [x]` in a fold, repeated slicing / reversing / mapping), and reading one element overflows the native stack"
                           % (short_path(ty), ", ".join(sorted({"%s->%s" % (c[0], c[1]) for c in bad_calls})))))
    return obs, [Floor(RULE2, "array view types forwarding accessors", len(per_type), 4)], {"view_types": len(per_type)}
