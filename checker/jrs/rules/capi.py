"""C15 rules: R-ENTER (evaluation inside an entered state at every entry point), sibling pipelines of the C entry
points, R-PROV (option plumbing field provenance), exit status, NUL framing, R-COVER(visit) for jrsonnet-deps."""
import re
from .. import hir as H
from ..mir import strip, show, short_path, contains
from ..report import ok, bad, info, site, Floor

EV = "jrsonnet_evaluator::"
C_ENTRY = {
    "jsonnet::jsonnet_evaluate_file": ("import", "manifest"),
    "jsonnet::jsonnet_evaluate_snippet": ("evaluate_snippet", "manifest"),
    "jsonnet::jsonnet_evaluate_file_multi": ("import", "val_to_multi"),
    "jsonnet::jsonnet_evaluate_snippet_multi": ("evaluate_snippet", "val_to_multi"),
    "jsonnet::jsonnet_evaluate_file_stream": ("import", "val_to_stream"),
    "jsonnet::jsonnet_evaluate_snippet_stream": ("evaluate_snippet", "val_to_stream"),
}
EVAL_CALLS = (EV + "State::import", EV + "State::import_from", EV + "State::evaluate_snippet", EV + "State::import_resolved",
              EV + "tla::apply_tla", EV + "val::Val::manifest")


def all_calls(prog, f, depth=1):
    """(callee, call-terminator, host fn) of f and of the closures defined in it"""
    out = []
    hosts = [f] + [c for c in prog.fns.values() if c.kind == "Closure" and c.root == f.path]
    for h in hosts:
        for b, t in h.calls():
            if h.is_cleanup(b) or b not in h.live_blocks:
                continue
            out.append((t.get("res") or t.get("fn") or "", t, h, b))
    return out


def run_enter(prog):
    RULE = "R-ENTER"
    obs = []
    entries = [prog.fn(p) for p in C_ENTRY] + [prog.fn("jrsonnet::main_real")]
    n = 0
    for f in entries:
        if f is None:
            continue
        n += 1
        key = "%s:entered" % f.path
        enters = [(b, t) for b, t in f.calls() if (t.get("res") or "") in (EV + "State::enter", EV + "State::try_enter") and not f.is_cleanup(b)]
        evals = [(b, t) for b, t in f.calls() if (t.get("res") or t.get("fn") or "") in EVAL_CALLS and not f.is_cleanup(b)]
        if not enters:
            obs.append(bad(RULE, key, site(f), "%s evaluates without entering its State: nested imports, ext vars and native callbacks would be resolved "
                           "through the default (dummy) state" % short_path(f.path)))
            continue
        eb = enters[0][0]
        notdom = [short_path(t.get("res") or t.get("fn")) for b, t in evals if not f.block_dominates(eb, b)]
        # guard held in a named local
        held = False
        for l, name in f.varnames.items():
            if name in ("_", "val", "residual") or l <= f.arg_count:
                continue
            d = f.desc_local(l)
            if contains(d, lambda x: x[0] == "call" and x[1] in (EV + "State::enter", EV + "State::try_enter")):
                held = True
        if notdom:
            obs.append(bad(RULE, key, site(f), "evaluation calls %s are not dominated by State::enter/try_enter" % notdom))
        elif not held:
            obs.append(bad(RULE, key, site(f), "the enter guard is not bound to a named local: the state is left again before evaluation starts"))
        elif not evals:
            obs.append(bad(RULE, key, site(f), "no evaluation call found after entering (anchor lost)"))
        else:
            obs.append(ok(RULE, key, site(f), "state entered (guard held) before %s" % sorted({short_path(t.get("res") or t.get("fn")) for b, t in evals})))
    floors = [Floor(RULE, "entry points", n, 7)]
    return obs, floors, {"entry_points": n}


def run_siblings(prog):
    RULE = "R-SIBLING"
    obs = []
    for path, (first, last) in C_ENTRY.items():
        f = prog.fn(path)
        key = "%s:pipeline" % short_path(path)
        if f is None:
            obs.append(bad(RULE, key, "", "%s not found" % path))
            continue
        calls = all_calls(prog, f)
        names = [c for c, t, h, b in calls]
        problems = []
        if not any(c == EV + "State::" + first for c in names):
            problems.append("does not start with State::%s" % first)
        tla = [(c, t, h) for c, t, h, b in calls if c == EV + "tla::apply_tla"]
        if len(tla) != 1:
            problems.append("apply_tla is called %d times (top-level arguments %s)" % (len(tla), "ignored" if not tla else "applied repeatedly"))
        else:
            c, t, h = tla[0]
            a0 = strip(h.desc_op(t["args"][0]))
            if not contains(a0, lambda x: x[0] == "field" and x[2] == "tla_args"):
                problems.append("apply_tla is not given vm.tla_args")
        lastc = {"manifest": EV + "val::Val::manifest", "val_to_multi": "jsonnet::val_to_multi", "val_to_stream": "jsonnet::val_to_stream"}[last]
        fin = [(c, t, h) for c, t, h, b in calls if c == lastc]
        others = [c for c, t, h, b in calls if c in (EV + "val::Val::manifest", "jsonnet::val_to_multi", "jsonnet::val_to_stream") and c != lastc]
        if len(fin) != 1 or others:
            problems.append("does not finish with exactly one %s (found %d, others %s)" % (short_path(lastc), len(fin), [short_path(o) for o in others]))
        else:
            c, t, h = fin[0]
            a = strip(h.desc_op(t["args"][1]))
            if not contains(a, lambda x: x[0] == "field" and x[2] == "manifest_format"):
                problems.append("the manifest step does not use vm.manifest_format")
        # error flag: both outcomes set *error
        if problems:
            obs.append(bad(RULE, key, site(f), "%s deviates from its five siblings: %s" % (short_path(path), "; ".join(problems))))
        else:
            obs.append(ok(RULE, key, site(f), "%s -> apply_tla(vm.tla_args) -> %s(vm.manifest_format)" % (first, last)))
    # NUL framing
    for name, want in (("jsonnet::multi_to_raw", 4), ("jsonnet::stream_to_raw", 3)):
        f = prog.fn(name)
        key = "%s:framing" % short_path(name)
        if f is None:
            obs.append(bad(RULE, key, "", "%s not found" % name))
            continue
        # NUL bytes written: `push(0)` is one; a constant byte array handed to extend_from_slice (`&[0, 0]`, b"\\0\\0") counts with its
        # length (the driver does not evaluate promoted array constants, so their contents are taken to be the terminator)
        pushes = 0
        opaque = 0
        for b, t in f.calls():
            if f.is_cleanup(b):
                continue
            fn = t.get("fn") or ""
            if fn.endswith("Vec::<T, A>::push"):
                v = strip(f.desc_op(t["args"][1]))
                if v == ("const", 0):
                    pushes += 1
            elif fn.endswith("Vec::<T, A>::extend_from_slice"):
                v = strip(f.desc_op(t["args"][1]))
                m = re.match(r"&\[u8; (\d+)\]$", str(v[4])) if v[0] == "cast" and len(v) > 4 and v[2][0] == "const" else None
                if m:
                    pushes += int(m.group(1))
                    opaque += int(m.group(1))
        note = " (%d of them in a constant byte array whose contents the driver does not see)" % opaque if opaque else ""
        obs.append(ok(RULE, key, site(f), "%d NUL bytes (separators + double terminator)%s" % (pushes, note)) if pushes == want else
                   bad(RULE, key, site(f), "expected %d NUL bytes (separators + two terminators), found %d" % (want, pushes)))
    return obs, [Floor(RULE, "C entry points", len([p for p in C_ENTRY if prog.fn(p)]), 6)], {}


PLUMB = {
    # list field suffix -> (TlaArg variant, payload field)
    "_str": ("String", "value"),
    "_str_file": ("ImportStr", "path"),
    "_code": ("InlineCode", "value"),
    "_code_file": ("Import", "path"),
}


def iterations(body):
    """(iterable, element pattern, body) of every `for pat in it {..}` loop and every `it.for_each(|pat| ..)` call"""
    for it, pat, b in H.for_loops(body):
        yield it, pat, b
    for c in H.nodes(body, "mcall"):
        if str(c[1]).endswith("Iterator::for_each") and c[3] and H.tag(c[3][0]) == "closure":
            cl = c[3][0]
            params = cl[2]
            if len(params) == 1:
                yield c[2], params[0], cl[3]


def run_prov(prog):
    RULE = "R-PROV"
    obs = []
    n = 0
    for path, prefix in (("jrsonnet_cli::tla::TlaOpts::tla_opts", "tla"), ("jrsonnet_cli::stdlib::StdOpts::context_initializer", "ext")):
        h = prog.hir.get(path)
        f = prog.fn(path)
        if h is None:
            obs.append(bad(RULE, "%s:anchor" % short_path(path), "", "%s not found" % path))
            continue
        seen = set()
        for it, pat, body in iterations(h["body"]):
            fld = None
            for x in H.walk(it):
                if H.tag(x) == "field" and x[2].startswith(prefix + "_"):
                    fld = x[2]
            if fld is None:
                continue
            n += 1
            suffix = fld[len(prefix):]
            seen.add(suffix)
            want = PLUMB.get(suffix)
            key = "%s:%s" % (short_path(path), fld)
            ext = [b[0] for b in H.pat_binds(pat)]
            ins = [c for c in H.calls(body, suffix="::insert")]
            if want is None or len(ins) != 1 or len(ext) != 1:
                obs.append(bad(RULE, key, site(f), "unexpected loop shape over %s" % fld))
                continue
            args = H.call_args(ins[0])
            kexpr, vexpr = args[-2], args[-1]
            kf = [x[2] for x in H.walk(kexpr) if H.tag(x) == "field" and H.local_name(x[1]) == ext[0]]
            vcall = vexpr
            variant = H.def_path(vcall[1]) if H.tag(vcall) == "call" else None
            vf = [x[2] for x in H.walk(vexpr) if H.tag(x) == "field" and H.local_name(x[1]) == ext[0]]
            problems = []
            if kf != ["name"]:
                problems.append("the key is taken from %s (expected .name)" % kf)
            if not variant or not variant.endswith("TlaArg::" + want[0]):
                problems.append("the value is %s (expected TlaArg::%s)" % (short_path(variant or "?"), want[0]))
            if vf != [want[1]]:
                problems.append("the payload is taken from %s (expected .%s)" % (vf, want[1]))
            if problems:
                obs.append(bad(RULE, key, site(f), "--%s: %s" % (fld.replace("_", "-"), "; ".join(problems))))
            else:
                obs.append(ok(RULE, key, site(f), "key <- .name, TlaArg::%s(.%s)" % want))
        for s in PLUMB:
            if s not in seen:
                obs.append(bad(RULE, "%s:%s%s" % (short_path(path), prefix, s), site(f), "no loop plumbing --%s%s" % (prefix, s.replace("_", "-"))))
    return obs, [Floor(RULE, "option loops", n, 8)], {"option_loops": n}


def run_optsplit(prog):
    """`name=value` options are split at the FIRST `=` by every FromStr impl of the CLI (values and paths may contain `=`)"""
    RULE = "R-PROV"
    obs = []
    n = 0
    for p, f in sorted(prog.fns.items()):
        if f.kind == "Closure" or not f.crate.startswith("jrsonnet_cli") or not (f.impl_trait or "").endswith("str::traits::FromStr") or not p.endswith("::from_str"):
            continue
        cs = [(t.get("fn") or "") for b, t in f.calls() if not f.is_cleanup(b)]
        first = [c for c in cs if c.endswith(("<impl str>::find", "<impl str>::split_once", "<impl str>::splitn"))]
        last = [c for c in cs if c.endswith(("<impl str>::rfind", "<impl str>::rsplit_once", "<impl str>::rsplitn", "<impl str>::rsplit"))]
        if not first and not last:
            continue
        n += 1
        key = "option-split:%s" % short_path(f.self_ty or p)
        obs.append(bad(RULE, key, site(f), "%s splits `name=value` at the last `=` (%s): a value or path that contains `=` ends up in the name; the sibling options split at the first"
                       % (short_path(f.self_ty or p), short_path(last[0]))) if last else
                   ok(RULE, key, site(f), "split at the first `=`"))
    return obs, [Floor(RULE, "name=value option parsers", n, 2)], {}


def run_exit(prog):
    RULE = "R-EXIT"
    obs = []
    f = prog.fn("jrsonnet::main_catch")
    key = "main_catch:status"
    if f is None:
        return [bad(RULE, key, "", "main_catch not found")], [], {}
    good = False
    for u, v, (d, val) in f._cond_edge_list():
        if d[0] == "discr" and isinstance(val, tuple) and val[0] == "variant" and val[1] == "Err":
            if contains(strip(d[1]), lambda x: x[0] == "call" and x[1] == "jrsonnet::main_real"):
                # on the Err edge every return yields false
                region = {v} | f.reach_from(v)
                vals = set()
                for b in region:
                    for s in f.stmts(b):
                        if s[0] == "a" and s[1] == [0] and s[2][0] == "use" and s[2][1][0] == "c":
                            vals.add(s[2][1][2])
                if vals == {0}:
                    good = True
    obs.append(ok(RULE, key, site(f), "an Err from main_real makes main_catch return false (exit status 1)") if good else
               bad(RULE, key, site(f), "main_catch does not return false on every error path of main_real"))
    g = prog.fn("jrsonnet::main")
    key = "main:exit"
    ex = False
    if g is not None:
        for b, t in g.calls():
            if (t.get("fn") or "") == "std::process::exit":
                a = strip(g.desc_op(t["args"][0]))
                if a == ("const", 1):
                    for u, v, (d, val) in g.facts_at(b):
                        sd = strip(d)
                        if (sd[0] == "un" and sd[1] == "Not" and val is True) or (val is False and sd[0] in ("call", "var", "param")):
                            ex = True
    obs.append(ok(RULE, key, site(g) if g else "", "exit(1) iff !success") if ex else bad(RULE, key, site(g) if g else "", "main does not exit(1) exactly when evaluation failed"))
    return obs, [], {}


VISITABLE = ("jrsonnet_ir::expr::Expr", "BindSpec", "ObjBody", "CompSpec", "ExprParams", "ExprParam", "Destruct", "FieldMember", "AssertStmt",
             "IfSpecData", "ForSpecData", "ArgsDesc", "SliceDesc", "FieldName", "ObjMembers", "ObjComp", "IndexPart", "IfElse", "AssertExpr", "BinaryOp", "Slice")
NOT_VISITABLE = ("BinaryOpType", "UnaryOpType", "LiteralType", "Span", "Visibility", "ImportKind")


def is_visitable(ty):
    if ty is None:
        return False
    t = ty
    for n in NOT_VISITABLE:
        t = t.replace(n, "")
    return any(v in t for v in VISITABLE)


def run_visit(prog):
    RULE = "R-COVER"
    obs = []
    nfn = 0
    for path, h in sorted(prog.hir.items()):
        if not path.startswith("jrsonnet_ir::visit::visit_"):
            continue
        f = prog.fn(path)
        nfn += 1
        used = set()
        for x in H.walk(h["body"]):
            if H.tag(x) == "path" and x[1][0] == "local":
                used.add(x[1][1])
        problems = []
        for x in H.walk(h["body"]):
            t = H.tag(x)
            if t == "struct" and x[3] is True and "jrsonnet_ir::" in x[1][-1]:
                problems.append("pattern %s { .. } ignores fields with `..`" % short_path(x[1][-1]))
            if t == "bind":
                name, ty = x[1], x[2]
                if is_visitable(ty) and (name.startswith("_") or name not in used):
                    problems.append("`%s: %s` is bound but never visited" % (name, short_path(ty)))
        # wildcard arms on IR enums
        for m in H.matches(h["body"]):
            if m[5] and "jrsonnet_ir::" in m[5] and not any(n in m[5] for n in NOT_VISITABLE):
                for arm in m[2]:
                    if H.pat_is_wild(arm[0]):
                        problems.append("wildcard arm in a match on %s" % short_path(m[5]))
        # a loop over children must not be left early: `return` / `break` inside a loop skips the remaining children
        for lp in H.nodes(h["body"], "loop"):
            for x in H.walk(lp[2] if len(lp) > 2 else lp):
                if H.tag(x) == "closure":
                    continue
                if H.tag(x) == "ret":
                    problems.append("`return` inside a loop over children skips the remaining ones")
        key = "%s:covers" % short_path(path)
        if problems:
            obs.append(bad(RULE, key, site(f), "; ".join(sorted(set(problems))) + ": an import in that position would be invisible to jrsonnet-deps"))
        else:
            obs.append(ok(RULE, key, site(f), "every sub-expression binding is visited; no `..`, no wildcard"))
    # the import flag
    h = prog.hir.get("jrsonnet_ir::visit::visit_expr")
    f = prog.fn("jrsonnet_ir::visit::visit_expr")
    key = "visit_expr:import-flag"
    good = False
    if h:
        for c in H.calls(h["body"], suffix="::visit_import"):
            a = H.call_args(c)
            flag = a[1] if len(a) >= 3 else None
            if H.tag(flag) == "match":
                arms = flag[2]
                vals = {}
                for arm in arms:
                    vs = H.pat_variants(arm[0])
                    vals[vs[0].rsplit("::", 1)[1] if vs else "_"] = H.lit_value(arm[2])
                if vals == {"Normal": True, "_": False}:
                    good = True
    obs.append(ok(RULE, key, site(f), "as_expression = matches!(kind, ImportKind::Normal)") if good else
               bad(RULE, key, site(f) if f else "", "the import visitor does not flag exactly ImportKind::Normal as code: importstr/importbin targets would be parsed as jsonnet (or imports skipped)"))
    # collect_deps recurses only on code imports
    h = prog.hir.get("jrsonnet_deps::collect_deps")
    f = prog.fn("jrsonnet_deps::collect_deps")
    key = "collect_deps:recursion"
    good = False
    if h:
        for n in H.nodes(h["body"], "if"):
            rec = any(True for _ in H.calls(n[2], path="jrsonnet_deps::collect_deps"))
            if rec:
                # the flag is the bool half of the (path, is-code) pairs the loop iterates over (called `expression` today)
                flags = {b[0] for it, pat, _b in H.for_loops(h["body"]) for b in H.pat_binds(pat) if str(b[1]) == "bool"} or {"expression"}
                names = [x[1][1] for x in H.walk(n[1]) if H.tag(x) == "path" and x[1][0] == "local"]
                neg = any(H.tag(x) == "unary" and x[1] == "!" and H.local_name(x[2]) in flags for x in H.walk(n[1]))
                if flags & set(names) and not neg:
                    good = True
    obs.append(ok(RULE, key, site(f), "recursion is conditional on the `expression` flag") if good else
               bad(RULE, key, site(f) if f else "", "collect_deps does not recurse exactly into code imports"))
    return obs, [Floor(RULE, "visit functions", nfn, 8)], {"visit_functions": nfn}


FORMAT_MAP = {"String": "ToStringFormat", "Json": "JsonFormat", "Yaml": "YamlFormat", "Toml": "TomlFormat", "XmlJsonml": "XmlJsonmlFormat", "Ini": "IniFormat"}
DEFAULT_PADDING = {"Json": 3, "Yaml": 2, "Toml": 2}


def run_format_map(prog):
    RULE = "R-TABLE"
    obs = []
    path = "jrsonnet_cli::manifest::ManifestOpts::manifest_format"
    h = prog.hir.get(path)
    f = prog.fn(path)
    if h is None:
        return [bad(RULE, "manifest_format:anchor", "", "%s not found" % path)], [], {}
    seen = {}
    for m in H.matches(h["body"]):
        if not (m[5] and m[5].endswith("ManifestFormatName")):
            continue
        for arm in m[2]:
            vs = [v.rsplit("::", 1)[1] for v in H.pat_variants(arm[0])]
            if len(vs) != 1:
                continue
            ctor = None
            pad = None
            for c in H.walk(arm[2]):
                cp = H.callee(c) if H.tag(c) in ("call", "mcall") else None
                if cp and cp.endswith("::cli"):
                    ctor = cp
                    for u in H.calls(c, suffix="::unwrap_or"):
                        a = H.call_args(u)
                        pad = H.lit_value(a[-1])
                if H.tag(c) == "path" and H.def_path(c) and H.def_path(c).endswith("ToStringFormat"):
                    ctor = ctor or H.def_path(c)
            seen[vs[0]] = (ctor, pad)
    for name, want in FORMAT_MAP.items():
        key = "format-map:%s" % name
        got = seen.get(name)
        if got is None:
            obs.append(bad(RULE, key, site(f), "-f %s has no arm in manifest_format()" % name.lower()))
            continue
        ctor, pad = got
        problems = []
        if not ctor or want not in ctor:
            problems.append("constructs %s (expected %s)" % (short_path(ctor or "?"), want))
        if name in DEFAULT_PADDING and pad != DEFAULT_PADDING[name]:
            problems.append("default --line-padding is %s (documented: %s)" % (pad, DEFAULT_PADDING[name]))
        obs.append(bad(RULE, key, site(f), "-f %s: %s" % (name.lower(), "; ".join(problems))) if problems else
                   ok(RULE, key, site(f), "%s -> %s%s" % (name, want, (" (default padding %s)" % pad) if pad is not None else "")))
    # -S -> StringFormat; -y wraps in YamlStreamFormat
    body = h["body"]
    sfmt = any(H.tag(x) == "path" and (H.def_path(x) or "").endswith("manifest::StringFormat") for x in H.walk(body))
    ys = any(True for _ in H.calls(body, suffix="YamlStreamFormat::<I>::cli"))
    obs.append(ok(RULE, "format-map:-S/-y", site(f), "-S uses StringFormat; -y wraps the format in YamlStreamFormat::cli") if sfmt and ys else
               bad(RULE, "format-map:-S/-y", site(f), "-S/-y wiring lost (StringFormat=%s, YamlStreamFormat::cli=%s)" % (sfmt, ys)))
    # C API default format = CLI default format
    g = prog.fn("jsonnet::default_json_format")
    key = "capi:default-format"
    if g is None:
        # fall back: what does jsonnet_make construct?
        obs.append(bad(RULE, key, "", "the C API does not build its default JSON format through default_json_format()"))
    else:
        okc = False
        for b, t in g.calls():
            if (t.get("res") or "").endswith("JsonFormat::<'_>::cli") or (t.get("res") or "").endswith("JsonFormat::<'s>::cli") or "JsonFormat" in (t.get("res") or "") and (t.get("res") or "").endswith("::cli"):
                a = strip(g.desc_op(t["args"][0]))
                if a == ("const", DEFAULT_PADDING["Json"]):
                    okc = True
        obs.append(ok(RULE, key, site(g), "C API default = JsonFormat::cli(3) = CLI default") if okc else
                   bad(RULE, key, site(g), "the C API default JSON format is not JsonFormat::cli(3): text differs from the jrsonnet executable"))
    return obs, [Floor(RULE, "format arms", len(seen), 6)], {}
