"""R-HASHORD: hash-table iteration order never reaches an observable.

Every call of an order-exposing method on a HashMap/HashSet in product code is a *source*.  A source is
discharged when (a) the enclosing function totally sorts what it collected before it escapes (sort on content-ordered
elements, or a comparator that ends in the element's own Ord), or (b) it is a reviewed order-insensitive consumer, or
(c) it is a reviewed *emitter* (hands items to a callback) all of whose callers are themselves discharged.
Anything else -- in particular any new iteration site -- is reported."""
import re

from ..mir import strip, show, short_path, contains
from ..report import ok, bad, info, site, Floor
from . import arith

RULE = "R-HASHORD"
PAT = re.compile(r"(HashMap|HashSet|hash_map|hash_set|hashbrown)")
METHODS = ("::iter", "::keys", "::values", "::into_keys", "::into_values", "::drain", "::iter_mut", "::values_mut",
           "::retain", "::into_iter", "::extract_if", "::union", "::intersection", "::difference", "::symmetric_difference")

EV = "jrsonnet_evaluator::"
# reviewed order-insensitive consumers: function -> reason
INSENSITIVE = {
    EV + "ctx::ContextBuilder::binds": "moves every pair into another hash map (bind); duplicates panic regardless of order",
    EV + "obj::ObjValue::len": "values().filter(visible).count(): a count",
    EV + "obj::ObjValue::fields_visibility": "retain() with a pure predicate on the value",
}
# reviewed emitters: function -> (reason, callers that must be discharged)
EMITTERS = {
    "<%sobj::OmitFieldsCore as %sobj::ObjectCore>::enum_fields_core" % (EV, EV): "hands each omitted name to the handler",
    "<%sobj::oop::OopObject as %sobj::ObjectCore>::enum_fields_core" % (EV, EV): "hands each member to the handler",
    EV + "map::LayeredHashMap::iter_keys": "hands each bound name to the handler",
}
# consumers of emitters: function -> how it neutralises the order
EMITTER_CONSUMERS = {
    EV + "obj::ObjValue::enum_fields_idx": ("forward", "forwards the handler layer by layer"),
    EV + "obj::ObjValue::enum_fields": ("forward", "public entry of the same enumeration; callers listed below"),
    "<%sobj::StandaloneSuperCore as %sobj::ObjectCore>::enum_fields_core" % (EV, EV): ("forward", "forwards to enum_fields_idx"),
    EV + "obj::ObjValue::fields_visibility": ("insensitive", "the handler only inserts into / updates a hash map entry keyed by the name"),
    EV + "map::LayeredHashMap::iter_keys": ("forward", "recursion into the parent layer"),
    EV + "ctx::Context::binding": ("sorted", None),
}


def sources(prog):
    for f in sorted(prog.fns.values(), key=lambda f: (f.file, f.line, f.path)):
        if not arith.in_scope(f) or arith.generated(f.exp):
            continue
        for b, t in f.calls():
            if f.is_cleanup(b) or b not in f.live_blocks:
                continue
            fn = t.get("fn") or ""
            recv = (t.get("argtys") or [""])[0]
            if fn.endswith(METHODS) and PAT.search(recv):
                yield f, b, t, fn.rsplit("::", 1)[1], recv


ORDER_SENSITIVE = ("::dedup", "::dedup_by", "::dedup_by_key", "::truncate", "::pop", "::first", "::last", "::split_off", "::swap_remove")


def order_sensitive_before(f, b, sort_block):
    """calls between the hash iteration (block b) and the sort whose result depends on the order of the collected items"""
    region = {b} | f.reach_from(b)
    out = []
    for bb, t in f.calls():
        if bb not in region or f.is_cleanup(bb) or bb == sort_block:
            continue
        fn = t.get("fn") or ""
        if fn.startswith(("alloc::vec::Vec", "core::slice::")) and fn.endswith(ORDER_SENSITIVE) and sort_block in f.reach_from(bb):
            out.append(short_path(fn))
    return out


def total_sort_after(prog, f, b):
    """a sort that yields a content-determined order, reachable after block b (and nothing order-dependent happens to the collected items
    before it)"""
    r = _total_sort_after(prog, f, b)
    if r is None:
        return None
    why, sort_block = r
    pre = order_sensitive_before(f, b, sort_block)
    if pre:
        return None
    return why


def _total_sort_after(prog, f, b):
    region = {b} | f.reach_from(b)
    for bb, t in f.calls():
        if bb not in region or f.is_cleanup(bb):
            continue
        fn = t.get("fn") or ""
        if not (fn.startswith("core::slice::<impl [T]>::sort") or fn.startswith("alloc::slice::<impl [T]>::sort")):
            continue
        recv = (t.get("argtys") or [""])[0]
        if fn.endswith(("::sort", "::sort_unstable")):
            if "jrsonnet_interner::IStr" in recv and "(" not in recv:
                return "elements (IStr, ordered by content) sorted with %s" % short_path(fn), bb
            continue
        if fn.endswith(("::sort_unstable_by_key", "::sort_by_key")) and "jrsonnet_evaluator::obj::FieldSortKey" in recv:
            return "sorted by FieldSortKey (inheritance depth, declaration index): unique per field, independent of hash order", bb
        # comparator closure must end in the element's own order
        cl = None
        for a in t["args"]:
            d = f.desc_op(a)
            if d[0] == "agg" and d[1] == "closure":
                cl = prog.fn(d[2])
        if cl is None:
            continue
        callees = [(tt.get("res") or tt.get("fn") or "") for _b, tt in cl.calls()]
        if any(("jrsonnet_interner::IStr" in c and c.endswith("::cmp")) or c.endswith("Ordering::then_with") for c in callees):
            # then_with closure compares the names
            tw = [prog.fn(c2.path) for c2 in prog.closures_of(cl.root or cl.path) if c2.path.startswith(cl.path)]
            inner = callees[:]
            for c2 in prog.fns.values():
                if c2.kind == "Closure" and c2.path.startswith(cl.path + "::"):
                    inner += [(tt.get("res") or tt.get("fn") or "") for _b, tt in c2.calls()]
            if any("jrsonnet_interner::IStr" in c and c.endswith("::cmp") for c in inner):
                return "sorted with a comparator that breaks ties by the name (total order)", bb
    return None


def run(prog):
    obs = []
    n = 0
    seen_keys = {}
    for f, b, t, meth, recv in sources(prog):
        n += 1
        base = "%s:%s" % (f.path, meth)
        seen_keys[base] = seen_keys.get(base, 0) + 1
        key = base if seen_keys[base] == 1 else "%s#%d" % (base, seen_keys[base])
        st = site(f, t["line"])
        owner = f.root if f.kind == "Closure" else f.path
        srt = total_sort_after(prog, f, b)
        if srt:
            obs.append(ok(RULE, key, st, srt))
        elif owner in INSENSITIVE:
            obs.append(ok(RULE, key, st, "reviewed order-insensitive: " + INSENSITIVE[owner]))
        elif owner in EMITTERS:
            obs.append(ok(RULE, key, st, "reviewed emitter (%s); its callers are checked below" % EMITTERS[owner]))
        elif owner == EV + "tla::apply_tla":
            # arguments are collected and sorted by name before use
            g = prog.fn(f.path)
            srt2 = None
            for bb, tt in f.calls():
                fn = tt.get("fn") or ""
                if fn.startswith(("core::slice::<impl [T]>::sort", "alloc::slice::<impl [T]>::sort")):
                    srt2 = fn
            if srt2:
                obs.append(ok(RULE, key, st, "entries collected and sorted by name before evaluation"))
            else:
                obs.append(bad(RULE, key, st, "top-level arguments are evaluated/validated in hash order: which of several errors is reported depends on interned string addresses"))
        else:
            obs.append(bad(RULE, key, st, "%s over %s exposes hash order (keys hash by address): the consumer is neither a total sort nor a reviewed "
                           "order-insensitive use" % (meth, recv[:90])))
    # callers of emitters
    for em in EMITTERS:
        for cf, b, t in prog.callers.get(em, []):
            if not arith.in_scope(cf):
                continue
            owner = cf.root if cf.kind == "Closure" else cf.path
            key = "%s:consumes(%s)" % (owner, short_path(em))
            st = site(cf, t["line"])
            cls = EMITTER_CONSUMERS.get(owner)
            if cls is None:
                obs.append(bad(RULE, key, st, "%s consumes the unordered enumeration %s and is not a reviewed consumer" % (short_path(owner), short_path(em))))
            elif cls[0] == "sorted":
                host = prog.fn(owner)
                hb = None
                for bb, tt in host.calls():
                    if (tt.get("res") or tt.get("fn")) == em or (tt.get("fn") or "") == em:
                        hb = bb
                srt = total_sort_after(prog, host, hb if hb is not None else 0)
                if srt:
                    obs.append(ok(RULE, key, st, srt))
                else:
                    obs.append(bad(RULE, key, st, "%s collects an unordered enumeration and does not sort it totally (ties keep hash order)" % short_path(owner)))
            else:
                obs.append(ok(RULE, key, st, "reviewed: " + cls[1], nontrivial=False))
    # dyn calls of enum_fields_core (the trait method) are forwarded by enum_fields_idx / fields_visibility only
    for cf, b, t in prog.callers.get(EV + "obj::ObjectCore::enum_fields_core", []):
        owner = cf.root if cf.kind == "Closure" else cf.path
        key = "%s:consumes(ObjectCore::enum_fields_core)" % owner
        if owner in EMITTER_CONSUMERS:
            obs.append(ok(RULE, key, site(cf, t["line"]), "reviewed: " + (EMITTER_CONSUMERS[owner][1] or "sorted"), nontrivial=False))
        else:
            obs.append(bad(RULE, key, site(cf, t["line"]), "%s enumerates object members in hash order and is not a reviewed consumer" % short_path(owner)))
    # forwarders keep the enumeration unordered: their callers must be reviewed consumers too
    for fw, (cls, why) in EMITTER_CONSUMERS.items():
        if cls != "forward":
            continue
        for cf, b, t in prog.callers.get(fw, []):
            if not arith.in_scope(cf):
                continue
            owner = cf.root if cf.kind == "Closure" else cf.path
            key = "%s:consumes(%s)" % (owner, short_path(fw))
            if any(o.key.endswith(key) for o in obs):
                continue
            if owner in EMITTER_CONSUMERS or owner in EMITTERS:
                obs.append(ok(RULE, key, site(cf, t["line"]), "reviewed consumer of a forwarded enumeration", nontrivial=False))
            else:
                obs.append(bad(RULE, key, site(cf, t["line"]), "%s consumes the hash-ordered enumeration forwarded by %s and is not a reviewed consumer" % (short_path(owner), short_path(fw))))
    # the ordered front door: fields_ex sorts
    floors = [Floor(RULE, "hash iteration sources", n, 6)]
    return obs, floors, {"hash_iteration_sources": n}
