"""R-TABLE(operators): operator x operand-type dispatch of the evaluator against the language definition."""
from .. import hir as H
from ..mir import short_path
from ..report import ok, bad, info, site, Floor

RULE = "R-OPS"
OPS = "jrsonnet_evaluator::evaluate::operator::"
VAL = "jrsonnet_evaluator::val::Val::"
NUMGET = "jrsonnet_evaluator::val::NumValue::get"

DELEGATES = {"Add": "evaluate_add_op", "Sub": "evaluate_sub_op", "Mul": "evaluate_mul_op", "Div": "evaluate_div_op", "Mod": "evaluate_mod_op"}
ARITH = {"evaluate_add_op": "+", "evaluate_sub_op": "-", "evaluate_mul_op": "*", "evaluate_div_op": "/", "evaluate_mod_op": "%"}


def tuple_arms(h):
    for m in H.matches(h["body"]):
        if H.tag(m[1]) == "tup":
            return m
    return None


def variant_of(p):
    vs = H.pat_variants(p)
    return vs[0].rsplit("::", 1)[1] if len(vs) == 1 else None


def num_payload_binop(body, op, na, nb):
    """find `<na>.get() op <nb>.get()` in body"""
    for x in H.nodes(body, "binary"):
        if x[1] != op:
            continue
        l, r = x[2], x[3]
        if H.callee(l) == NUMGET and H.callee(r) == NUMGET:
            if H.local_name(H.call_args(l)[0]) == na and H.local_name(H.call_args(r)[0]) == nb:
                return True
    return False


def run(prog):
    obs = []
    f = prog.fn(OPS + "evaluate_binary_op_normal")
    h = prog.hir.get(OPS + "evaluate_binary_op_normal")
    if h is None:
        return [bad(RULE, "binary:anchor", "", "evaluate_binary_op_normal not found")], [], {}
    st = site(f)
    m = tuple_arms(h)
    seen = {}
    for arm in m[2]:
        p = arm[0]
        if H.tag(p) == "tup" and len(p[1]) == 3:
            op = variant_of(p[1][1])
            if op:
                seen.setdefault(op, []).append(arm)
    all_ops = None
    for unit, a in prog.adts():
        if a["path"] == "jrsonnet_ir::expr::BinaryOpType":
            all_ops = [v["name"] for v in a["variants"]]
    missing = [o for o in (all_ops or []) if o not in seen and o != "NullCoaelse"]
    obs.append(ok(RULE, "binary:all-operators", st, "every BinaryOpType variant (%d) is named by a dispatch arm" % len(all_ops or [])) if all_ops and not missing else
               bad(RULE, "binary:all-operators", st, "operators without a dispatch arm: %s" % missing))
    # delegation
    for op, fn in DELEGATES.items():
        key = "binary:%s" % op
        arms = seen.get(op, [])
        cs = [H.callee(c) for a in arms for c in H.calls(a[2]) if (H.callee(c) or "").startswith(OPS + "evaluate_")]
        good = cs == [OPS + fn]
        if good:
            a = arms[0]
            c = next(H.calls(a[2], path=OPS + fn))
            args = H.call_args(c)
            na = [b[0] for b in H.pat_binds(a[0][1][0])]
            nb = [b[0] for b in H.pat_binds(a[0][1][2])]
            good = [H.local_name(args[0])] == na and [H.local_name(args[1])] == nb
        obs.append(ok(RULE, key, st, "%s => %s(a, b)" % (op, fn)) if good else
                   bad(RULE, key, st, "operator %s is dispatched to %s (expected %s(a, b))" % (op, [short_path(c) for c in cs], fn)))
    # in
    key = "binary:In"
    good = False
    for a in seen.get("In", []):
        lp, rp = a[0][1][0], a[0][1][2]
        if variant_of(lp) == "Str" and variant_of(rp) == "Obj":
            for c in H.calls(a[2]):
                cp = H.callee(c)
                args = H.call_args(c)
                if cp == "jrsonnet_evaluator::obj::ObjValue::has_field_ex" and H.lit_value(args[-1]) is True:
                    good = True
                if cp == "jrsonnet_evaluator::obj::ObjValue::has_field_include_hidden":
                    good = True
    obs.append(ok(RULE, key, st, "`e in o` looks the field up including hidden fields (objectHasAll)") if good else
               bad(RULE, key, st, "`in` does not use the include-hidden lookup: hidden fields would not be found (the language defines `in` as objectHasAll)"))
    # && ||
    for op, sym in (("And", "&&"), ("Or", "||")):
        key = "binary:%s" % op
        good = False
        for a in seen.get(op, []):
            if variant_of(a[0][1][0]) == "Bool" and variant_of(a[0][1][2]) == "Bool":
                if any(x[1] == sym for x in H.nodes(a[2], "binary")):
                    good = True
        obs.append(ok(RULE, key, st, "Bool %s Bool" % sym) if good else bad(RULE, key, st, "%s is not `a %s b` on booleans" % (op, sym)))
    # Eq / Neq
    for op, neg in (("Eq", False), ("Neq", True)):
        key = "binary:%s" % op
        good = False
        for a in seen.get(op, []):
            eq = [c for c in H.calls(a[2], path="jrsonnet_evaluator::val::equals")]
            nots = [x for x in H.nodes(a[2], "unary") if x[1] == "!"]
            if len(eq) == 1 and bool(nots) == neg:
                good = True
        obs.append(ok(RULE, key, st, "%sequals(a, b)" % ("!" if neg else "")) if good else bad(RULE, key, st, "%s is not %sequals(a, b)" % (op, "!" if neg else "")))
    # arithmetic on numbers
    for fn, sym in ARITH.items():
        g = prog.fn(OPS + fn)
        hh = prog.hir.get(OPS + fn)
        key = "%s:Num" % fn
        if hh is None:
            obs.append(bad(RULE, key, "", "%s not found" % fn))
            continue
        mm = None
        for x in H.matches(hh["body"]):
            if H.tag(x[1]) == "tup":
                mm = x
        good = False
        if mm:
            for a in mm[2]:
                p = a[0]
                if H.tag(p) == "tup" and len(p[1]) == 2 and variant_of(p[1][0]) == "Num" and variant_of(p[1][1]) == "Num":
                    na = [b[0] for b in H.pat_binds(p[1][0])][0]
                    nb = [b[0] for b in H.pat_binds(p[1][1])][0]
                    tn = any(True for _ in H.calls(a[2], path="jrsonnet_evaluator::val::Val::try_num"))
                    if num_payload_binop(a[2], sym, na, nb) and tn:
                        good = True
        obs.append(ok(RULE, key, site(g), "(Num a, Num b) => try_num(a %s b)" % sym) if good else
                   bad(RULE, key, site(g), "%s on numbers is not `try_num(a.get() %s b.get())` with the operands in order" % (fn, sym)))
    # array concatenation order
    hh = prog.hir.get(OPS + "evaluate_add_op")
    g = prog.fn(OPS + "evaluate_add_op")
    key = "evaluate_add_op:Arr"
    good = False
    if hh:
        mm = tuple_arms(hh)
        for a in mm[2]:
            p = a[0]
            if H.tag(p) == "tup" and len(p[1]) == 2 and variant_of(p[1][0]) == "Arr" and variant_of(p[1][1]) == "Arr":
                na = [b[0] for b in H.pat_binds(p[1][0])]
                nb = [b[0] for b in H.pat_binds(p[1][1])]
                for c in H.calls(a[2], path="jrsonnet_evaluator::arr::ArrValue::extended"):
                    args = H.call_args(c)
                    if [H.expr_source_name(args[0])] == na and [H.expr_source_name(args[1])] == nb:
                        good = True
    obs.append(ok(RULE, key, site(g), "a + b on arrays = extended(a, b)") if good else bad(RULE, key, site(g) if g else "", "array concatenation is not ArrValue::extended(a, b) in operand order"))
    # unary
    hh = prog.hir.get(OPS + "evaluate_unary_op")
    g = prog.fn(OPS + "evaluate_unary_op")
    if hh is None:
        obs.append(bad(RULE, "unary:anchor", "", "evaluate_unary_op not found"))
    else:
        mm = tuple_arms(hh)
        got = {}
        for a in mm[2]:
            p = a[0]
            if H.tag(p) == "tup" and len(p[1]) == 2:
                op = variant_of(p[1][0])
                ty = variant_of(p[1][1])
                if op:
                    un = [x[1] for x in H.nodes(a[2], "unary") if x[1] in ("-", "!")]
                    cast = [x for x in H.nodes(a[2], "cast")]
                    got[op] = (ty, un, bool(cast))
        want = {"Plus": ("Num", [], False), "Minus": ("Num", ["-"], False), "Not": ("Bool", ["!"], False), "BitNot": ("Num", ["!"], True)}
        for op, w in want.items():
            key = "unary:%s" % op
            obs.append(ok(RULE, key, site(g), "%s on %s" % (op, w[0])) if got.get(op) == w else
                       bad(RULE, key, site(g), "unary %s is implemented as %s (expected operand %s, operator %s%s)" % (op, got.get(op), w[0], w[1], ", on the i64 value" if w[2] else "")))
    obs.extend(check_argbind(prog))
    floors = [Floor(RULE, "obligations", len(obs), 18)]
    return obs, floors, {}


def check_argbind(prog):
    """parameter defaults are evaluated in a context that already contains the passed arguments: the call that moves
    `passed_args` into the context dominates `into_future(fctx)` (fctx = the future context the default thunks captured)"""
    from ..mir import strip, contains
    out = []
    for path in ("jrsonnet_evaluator::function::parse::parse_function_call",
                 "jrsonnet_evaluator::function::prepared::parse_prepared_function_call"):
        f = prog.fn(path)
        key = "%s:defaults-see-arguments" % short_path(path)
        if f is None:
            out.append(bad(RULE, key, "", "%s not found" % path))
            continue
        pa = [l for l, n in f.varnames.items() if n == "passed_args"]
        fc = [l for l, n in f.varnames.items() if n == "fctx"]
        if not pa or not fc:
            out.append(bad(RULE, key, site(f), "locals passed_args / fctx not found (anchor lost)"))
            continue
        pa, fc = pa[0], fc[0]
        consume = []
        futures = []
        dpa = strip(f.desc_local(pa))
        dfc = strip(f.desc_local(fc))

        def is_local(a, l, dl):
            if a[0] in ("mv", "cp") and a[1] == [l]:
                return True
            d = strip(f.desc_op(a))
            return d == dl or d == ("var", l)
        for b, t in f.calls():
            if f.is_cleanup(b) or b not in f.live_blocks:
                continue
            c = t.get("res") or t.get("fn") or ""
            for a in t["args"]:
                if is_local(a, pa, dpa) and (c.endswith("::extend_bindings") or c.endswith("ContextBuilder::binds")):
                    consume.append(b)
            if c.endswith("Context::into_future") and len(t["args"]) == 2:
                if is_local(t["args"][1], fc, dfc):
                    futures.append(b)
        problems = []
        if not futures:
            problems.append("no into_future(fctx) call")
        for fb in futures:
            if not any(cb != fb and f.block_dominates(cb, fb) for cb in consume):
                problems.append("into_future(fctx) is reached before the passed arguments are layered into the context: a default such as "
                                "`function(a, b=a+1)` would not see `a`")
        out.append(bad(RULE, key, site(f), "; ".join(problems)) if problems else
                   ok(RULE, key, site(f), "the passed arguments are in the context before the defaults' future context is filled"))
    return out
