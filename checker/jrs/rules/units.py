"""C17 rules.
R-UNIT   : byte offsets, character indexes and line/column numbers are never compared, added or stored into each other's slots
           in the position pipeline (flow-insensitive unit inference over MIR locals, seeded from std APIs and declared fields).
R-PROV   : spans are mapped start-first (Span.1 then Span.2), print_code_location prints (line, column) pairs of one location,
           start before end; the parser's EOF position is the end of the last lexeme.
R-TRIVIA : the syntax-tree builder and the token filter in front of the parser use the same trivia predicate; tree tokens take
           their text from the lexeme list, in order, exactly once."""
import re
from .. import hir as H
from ..mir import strip, show, short_path, contains, opname, rel_fact
from ..report import ok, bad, info, site, Floor

B, C, N, MIX = "bytes", "chars", "line/column", "mixed"
INT_TYPES = {"usize", "u32", "u64", "i32", "i64", "isize", "u16", "u8"}

FIELD_UNITS = {"offset": B, "line_start_offset": B, "line_end_offset": B, "line": N, "column": N}
FIELD_OWNERS = ("CodeLocation", "ParseError")
PARAM_UNITS = {
    ("jrsonnet_ir::location::offset_to_location", 2): B,
    ("jrsonnet_ir::source::Source::map_source_locations", 2): B,
}
SCOPE_FILES = ("crates/jrsonnet-ir/src/location.rs", "crates/jrsonnet-ir/src/source.rs", "crates/jrsonnet-evaluator/src/trace/mod.rs",
               "crates/jrsonnet-lexer/src/lex.rs", "crates/jrsonnet-lexer/src/string_block.rs", "crates/jrsonnet-rowan-parser/src/event.rs",
               "crates/jrsonnet-rowan-parser/src/lex.rs")
SCOPE_FNS = ("<jrsonnet_stdlib::StdTracePrinter as jrsonnet_stdlib::TracePrinter>::print_trace",
             "jrsonnet_ir_parser::Parser::<'a>::span_start", "jrsonnet_ir_parser::Parser::<'a>::span_end", "jrsonnet_ir_parser::Parser::<'a>::error")
# location_to_offset converts a (line, column) pair back to an offset by adding `column - 1` to a byte offset: inherent to the
# conversion (exact when the line prefix is ASCII, which is the property's own precondition); not armed.
EXEMPT = {"jrsonnet_ir::location::location_to_offset": "column->offset conversion adds a column to a byte offset by definition (exact for an ASCII line prefix)"}


def join(a, b):
    if a is None:
        return b
    if b is None:
        return a
    return a if a == b else MIX


def seed_call(t):
    """unit of a call's result decided by the callee alone, or ('prop',) to propagate the arguments, or None"""
    fn = t.get("fn") or ""
    at = t.get("argtys") or []
    a0 = at[0] if at else ""
    if fn in ("core::str::<impl str>::len", "alloc::string::String::len", "core::char::methods::<impl char>::len_utf8",
              "core::str::<impl str>::char_indices", "core::str::<impl str>::find", "core::str::<impl str>::rfind",
              "core::str::<impl str>::match_indices", "core::str::<impl str>::rmatch_indices"):
        return B
    if fn.startswith("text_size::") or fn.startswith("rowan::") and ("text_range" in fn or "text_offset" in fn or "text_len" in fn):
        return B
    if fn.endswith("::span") and "logos" in fn:
        return B
    if fn == "core::iter::traits::iterator::Iterator::enumerate":
        return C if "core::str::iter::Chars" in a0 else ("prop",)
    if fn == "core::iter::traits::iterator::Iterator::count":
        return C if ("core::str::iter::Chars" in a0 or "core::str::iter::CharIndices" in a0) else None
    if fn == "core::iter::traits::iterator::Iterator::position":
        return C if "core::str::iter::Chars" in a0 else (B if "core::str::iter::Bytes" in a0 else None)
    if fn in ("alloc::vec::Vec::<T, A>::len", "core::slice::<impl [T]>::len", "core::slice::<impl [T]>::is_empty", "alloc::vec::Vec::<T, A>::is_empty"):
        return B if a0 in ("&[u8]", "&alloc::vec::Vec<u8>") else None
    return ("prop",)


class Units:
    def __init__(self, g):
        self.g = g
        self.u = {}
        for (path, idx), unit in PARAM_UNITS.items():
            if g.path == path:
                self.u[idx] = unit
        self.solve()

    def place_unit(self, pl):
        g = self.g
        unit = self.u.get(pl[0])
        ty = g.locals[pl[0]] if pl[0] < len(g.locals) else ""
        for pr in pl[1:]:
            if isinstance(pr, str) and pr.startswith("."):
                m = re.match(r"^\.(\d+):(.*)$", pr)
                if m:
                    name = m.group(2)
                    if name in FIELD_UNITS and any(x in str(ty) for x in FIELD_OWNERS):
                        unit = FIELD_UNITS[name]
                    elif re.search(r"jrsonnet_ir::[a-z_:]*Span\b", str(ty)) and m.group(1) in ("1", "2") and not name.strip("0123456789"):
                        unit = B
        return unit

    def declared_field(self, pl):
        ty = self.g.locals[pl[0]] if pl[0] < len(self.g.locals) else ""
        if not any(x in str(ty) for x in FIELD_OWNERS):
            return None
        for p in reversed(pl[1:]):
            if isinstance(p, str) and p.startswith(".") and p.split(":", 1)[-1] in FIELD_UNITS:
                return p.split(":", 1)[-1]
        return None

    def op_unit(self, op):
        if op[0] in ("cp", "mv"):
            return self.place_unit(op[1])
        return None

    def rv_unit(self, rv):
        k = rv[0]
        if k == "use":
            return self.op_unit(rv[1])
        if k == "cast":
            return self.op_unit(rv[2])
        if k in ("ref", "rawptr"):
            return self.place_unit(rv[2] if k == "ref" else rv[1])
        if k == "un":
            return self.op_unit(rv[2])
        if k == "bin":
            op = opname(rv[1])
            if op in ("Add", "Sub"):
                return join(self.op_unit(rv[2]), self.op_unit(rv[3]))
            return None
        if k == "agg":
            u = None
            for o in rv[4]:
                u = join(u, self.op_unit(o))
            return u
        return None

    def solve(self):
        g = self.g
        changed = True
        rounds = 0
        while changed and rounds < 30:
            changed = False
            rounds += 1
            for b in sorted(g.live_blocks):
                for s in g.stmts(b):
                    if s[0] != "a":
                        continue
                    pl, rv = s[1], s[2]
                    if len(pl) > 1 and self.declared_field(pl) is not None:
                        continue        # store into a declared field: checked, not propagated into the base local
                    nu = join(self.u.get(pl[0]), self.rv_unit(rv))
                    if nu != self.u.get(pl[0]):
                        self.u[pl[0]] = nu
                        changed = True
                t = g.term(b)
                if isinstance(t, dict) and t["k"] == "call":
                    sc = seed_call(t)
                    if sc == ("prop",):
                        sc = None
                        for a in t["args"]:
                            sc = join(sc, self.op_unit(a))
                    nu = join(self.u.get(t["dest"][0]), sc)
                    if nu != self.u.get(t["dest"][0]):
                        self.u[t["dest"][0]] = nu
                        changed = True


def in_scope(f, files=SCOPE_FILES, fns=SCOPE_FNS):
    return f.file.endswith(files) or f.path in fns or (f.root in fns if f.root else False)


def run(prog, files=SCOPE_FILES, fns=SCOPE_FNS, floor_fns=40, floor_sites=15):
    RULE = "R-UNIT"
    obs = []
    n_fn = n_sites = 0
    seen_scope = set()
    for f in sorted(prog.fns.values(), key=lambda x: x.path):
        if not in_scope(f, files, fns) or "#[derive" in " ".join(f.exp or []) or "/tests" in f.file or f.path.endswith("::tests::test"):
            continue
        seen_scope.add(f.file)
        if f.path in EXEMPT:
            obs.append(info(RULE, "exempt:%s" % short_path(f.path), site(f), EXEMPT[f.path]))
            continue
        n_fn += 1
        un = Units(f)
        probs = {}
        checked = 0
        for b in sorted(f.live_blocks):
            if f.is_cleanup(b):
                continue
            for s in f.stmts(b):
                if s[0] != "a":
                    continue
                pl, rv = s[1], s[2]
                if rv[0] == "bin" and opname(rv[1]) in ("Eq", "Ne", "Lt", "Le", "Gt", "Ge", "Add", "Sub") and rv[4] in INT_TYPES:
                    u1, u2 = un.op_unit(rv[2]), un.op_unit(rv[3])
                    if u1 is not None and u2 is not None:
                        checked += 1
                        if u1 != u2 or MIX in (u1, u2):
                            probs.setdefault("%s:%s~%s" % (opname(rv[1]), u1, u2), (s[3], "`%s %s %s`" % (show(strip(f.desc_op(rv[2])))[:60], opname(rv[1]), show(strip(f.desc_op(rv[3])))[:60])))
                fld = un.declared_field(pl) if len(pl) > 1 else None
                if fld is not None:
                    want = FIELD_UNITS[fld]
                    got = un.rv_unit(rv)
                    if got is not None:
                        checked += 1
                        if got != want:
                            probs.setdefault("store:%s<-%s" % (fld, got), (s[3], "a %s value is stored into `%s` (%s)" % (got, fld, want)))
            t = f.term(b)
            if isinstance(t, dict) and t["k"] == "call":
                callee = t.get("res") or t.get("fn") or ""
                for (path, idx), want in PARAM_UNITS.items():
                    if callee == path and idx - 1 < len(t["args"]):
                        got = un.op_unit(t["args"][idx - 1])
                        if got is not None:
                            checked += 1
                            if got != want:
                                probs.setdefault("arg:%s<-%s" % (short_path(path), got), (t["line"], "a %s value is passed where %s expects %s offsets" % (got, short_path(path), want)))
                fnp = t.get("fn") or ""
                if fnp in ("core::iter::traits::iterator::Iterator::take", "core::iter::traits::iterator::Iterator::skip",
                           "core::iter::traits::iterator::Iterator::nth", "core::iter::traits::iterator::Iterator::step_by") and len(t["args"]) > 1:
                    a0 = (t.get("argtys") or [""])[0]
                    want = C if "core::str::iter::Chars" in a0 else (B if "core::str::iter::Bytes" in a0 else None)
                    got = un.op_unit(t["args"][1])
                    if want is not None and got is not None:
                        checked += 1
                        if got != want:
                            probs.setdefault("count:%s<-%s" % (fnp.rsplit("::", 1)[1], got), (t["line"], "a %s value is used to count %s of a %s iterator"
                                             % (got, "characters" if want == C else "bytes", "chars()" if want == C else "bytes()")))
                if (t.get("fn") or "") == "core::iter::traits::iterator::Iterator::chain":
                    us = [un.op_unit(a) for a in t["args"]]
                    if us[0] is not None and us[1] is not None:
                        checked += 1
                        if us[0] != us[1]:
                            probs.setdefault("chain:%s~%s" % (us[0], us[1]), (t["line"], "an iterator of %s positions is chained with %s positions" % (us[0], us[1])))
        n_sites += checked
        if probs:
            for k, (line, why) in sorted(probs.items()):
                obs.append(bad(RULE, "%s:%s" % (short_path(f.path), k), site(f, line), "unit confusion in the position pipeline: %s" % why))
        elif checked:
            obs.append(ok(RULE, short_path(f.path), site(f), "%d comparisons / additions / stores of positions, all within one unit" % checked))
    floors = [Floor(RULE, "functions in scope", n_fn, floor_fns), Floor(RULE, "unit-carrying sites checked", n_sites, floor_sites)]
    return obs, floors, {"unit_functions": n_fn, "unit_sites": n_sites}


# ---------------------------------------------------------------------------------------------------------------
# R-PROV

def _resolve_index(g, d):
    """('index', base, '[_n]') -> (base, constant index or None)"""
    if d[0] != "index":
        return None
    m = re.match(r"^\[_(\d+)\]$", str(d[2]))
    if m:
        c = strip(g.desc_local(int(m.group(1))))
        return d[1], (c[1] if c[0] == "const" else None)
    m = re.match(r"^\[c(\d+)\]$", str(d[2]))
    if m:
        return d[1], int(m.group(1))
    return d[1], None


def _resolve_index_desc(g, d):
    while d[0] in ("ref", "deref"):
        d = d[1]
    if d[0] != "index":
        return None
    m = re.match(r"^\[_(\d+)\]$", str(d[2]))
    return (d[1], show(strip(g.desc_local(int(m.group(1))))).replace("*", "")) if m else None


def _loc_field(d, g=None, _depth=0):
    """descriptor of `<param>.line` / `<param>.column [- 1]` -> (param index, field); a local assigned on several paths
    (`if c == 0 { 0 } else { c - 1 }`) stands for the one field all its non-constant assignments are derived from"""
    d = strip(d)
    while d[0] in ("ref", "deref"):
        d = d[1]
    if d[0] == "var" and g is not None and _depth < 3:
        got = set()
        for df in g.defs.get(d[1], []):
            if df[0] != "s" or len(df[3]) != 1:
                return None
            d2 = strip(g.desc_rvalue(df[4]))
            if d2[0] == "const":
                continue
            got.add(_loc_field(d2, g, _depth + 1))
        return got.pop() if len(got) == 1 else None
    if d[0] == "field" and d[2] == "0" and d[1][0] == "bin":          # checked (a - 1).0
        d = d[1]
    if d[0] == "bin" and d[1] == "Sub":
        d = d[2]
    if d[0] == "call" and "saturating_sub" in str(d[1]):
        d = d[2][0]
    while d[0] in ("ref", "deref"):
        d = d[1]
    if d[0] == "field" and d[2] in ("line", "column"):
        base = d[1]
        while base[0] in ("ref", "deref"):
            base = base[1]
        if base[0] == "param":
            return base[1], d[2]
    return None


def run_prov(prog):
    RULE = "R-PROV"
    obs = []
    n = 0
    # (1) spans are mapped start first
    MSL = "jrsonnet_ir::source::Source::map_source_locations"
    for f in sorted(prog.fns.values(), key=lambda x: x.path):
        k = 0
        for b, t in f.calls():
            if (t.get("res") or t.get("fn")) != MSL or f.path == MSL:
                continue
            k += 1
            n += 1
            key = "span-order:%s#%d" % (short_path(f.path), k)
            arr = strip(f.desc_op(t["args"][1]))
            while arr[0] in ("ref", "deref"):
                arr = arr[1]
            if arr[0] != "agg":
                obs.append(bad(RULE, key, site(f, t["line"]), "offsets argument is not an array literal: %s" % show(arr)[:80]))
                continue
            els = arr[-1]
            fields = []
            for e in els:
                e2 = e
                while e2[0] in ("ref", "deref"):
                    e2 = e2[1]
                fields.append((e2[2], e2[1]) if e2[0] == "field" and e2[2] in ("1", "2") else None)
            if all(x is None for x in fields):
                obs.append(ok(RULE, key, site(f, t["line"]), "offset of a parse error (no span)"))
            elif fields[0] is not None and fields[0][0] == "1" and (len(fields) == 1 or (fields[1] is not None and fields[1][0] == "2" and fields[1][1] == fields[0][1])):
                obs.append(ok(RULE, key, site(f, t["line"]), "the span's start offset is mapped first%s" % (", its end second" if len(fields) > 1 else "")))
            else:
                obs.append(bad(RULE, key, site(f, t["line"]), "the location is computed from %s instead of the span's start%s"
                               % ([("span.%s" % x[0]) if x else "?" for x in fields], " followed by its end" if len(fields) > 1 else "")))
    # (2) print_code_location
    g = prog.fn("jrsonnet_evaluator::trace::print_code_location")
    if g is None:
        obs.append(bad(RULE, "print_code_location", "", "function not found"))
    else:
        S = g.param(name="start", ty="CodeLocation", nth=0) or 2
        E = g.param(name="end", ty="CodeLocation", nth=1) or 3
        groups = []
        for b, t in g.calls():
            if (t.get("fn") or "").endswith("Arguments::<'a>::new") or (t.get("fn") or "").startswith("core::fmt::Arguments"):
                arr = None
                for a in t["args"]:
                    d = strip(g.desc_op(a))
                    while d[0] in ("ref", "deref"):
                        d = d[1]
                    if d[0] == "agg":
                        arr = d
                if arr is None:
                    continue
                items = []
                for e in arr[-1]:
                    if e[0] == "call" and "Argument" in str(e[1]):
                        items.append(_loc_field(e[2][0], g))
                # the write belongs to the several-lines case when `start.line != end.line` is known there (however the test is spelled)
                multi = False
                for fct in g.facts_at(b):
                    r = rel_fact(fct[2][0], fct[2][1]) if isinstance(fct[2][1], bool) else None
                    if r and r[0] == "Ne" and show(r[1]).endswith(".line") and show(r[2]).endswith(".line"):
                        multi = True
                groups.append((b, t["line"], items, multi))
        for gi, (b, line, items, multi) in enumerate(groups):
            n += 1
            key = "print_code_location:%s" % ("multi-line" if multi else "same-line#%d" % (gi + 1))
            probs = []
            if None in items:
                probs.append("an argument is not a line/column of start or end")
            else:
                if items[0] != (S, "line"):
                    probs.append("the first number printed is not start.line")
                if multi:
                    if items != [(S, "line"), (S, "column"), (E, "line"), (E, "column")]:
                        probs.append("a range over several lines must print start.line:start.column-end.line:end.column, found %s"
                                     % ["%s.%s" % ({S: "start", E: "end"}.get(p, "?"), fl) for p, fl in items])
                else:
                    if items[-1] != (E, "column"):
                        probs.append("the last number printed is not end.column")
            obs.append(bad(RULE, key, site(g, line), "; ".join(probs)) if probs else
                       ok(RULE, key, site(g, line), "prints %s" % " ".join("%s.%s" % ({S: "start", E: "end"}.get(p, "?"), fl) for p, fl in items)))
        if not any(m for _b, _l, _i, m in groups):
            obs.append(bad(RULE, "print_code_location:multi-line", site(g), "no output for ranges whose start and end are on different lines"))
    # (3) call sites of print_code_location take [0] as start and [1] as end
    for f in sorted(prog.fns.values(), key=lambda x: x.path):
        k = 0
        for b, t in f.calls():
            if (t.get("res") or t.get("fn")) != "jrsonnet_evaluator::trace::print_code_location":
                continue
            k += 1
            n += 1
            key = "start-end:%s#%d" % (short_path(f.path), k)
            pcl = prog.fn("jrsonnet_evaluator::trace::print_code_location")
            si = (pcl.param(name="start", ty="CodeLocation", nth=0) or 2) - 1 if pcl else 1
            ei = (pcl.param(name="end", ty="CodeLocation", nth=1) or 3) - 1 if pcl else 2
            a1, a2 = strip(f.desc_op(t["args"][si])), strip(f.desc_op(t["args"][ei]))
            while a1[0] in ("ref", "deref"):
                a1 = a1[1]
            while a2[0] in ("ref", "deref"):
                a2 = a2[1]
            r1, r2 = _resolve_index(f, a1), _resolve_index(f, a2)
            if r1 and r2:
                good = r1[0] == r2[0] and r1[1] == 0 and r2[1] == 1
                obs.append(ok(RULE, key, site(f, t["line"]), "start = locations[0], end = locations[1]") if good else
                           bad(RULE, key, site(f, t["line"]), "start/end are taken from locations[%s]/locations[%s]" % (r1[1], r2[1])))
            elif a1 == a2:
                obs.append(ok(RULE, key, site(f, t["line"]), "a single position is used for both ends"))
            else:
                obs.append(bad(RULE, key, site(f, t["line"]), "cannot relate start `%s` and end `%s` to one mapped span" % (show(a1)[:50], show(a2)[:50])))
    # (4) the parser's positions
    g = prog.fn("jrsonnet_ir_parser::Parser::<'a>::span_start")
    key = "span_start"
    if g is None:
        obs.append(bad(RULE, key, "", "Parser::span_start not found"))
    else:
        # return values with the at_eof() fact of their block; `opt.map_or(d, |x| e)` / `map_or_else` / `map(..).unwrap_or(d)` contribute the
        # default and the closure's results (its parameter standing for the receiver's payload)
        rets = []

        def eof_at(b):
            eof = [f[2][1] for f in g.facts_at(b) if "at_eof" in show(strip(f[2][0]))]
            return eof[0] if eof else None

        def closure_rets(path, recv_txt):
            c = prog.fn(path)
            out = []
            if c is None:
                return out
            for cb in sorted(c.live_blocks):
                for cs in c.stmts(cb):
                    if cs[0] == "a" and cs[1] == [0]:
                        out.append(show(strip(c.desc_rvalue(cs[2]))).replace("arg2", "(%s as Some).0" % recv_txt).replace("p2", "(%s as Some).0" % recv_txt))
            return out

        for b in sorted(g.live_blocks):
            for s in g.stmts(b):
                if s[0] == "a" and s[1] == [0]:
                    d = strip(g.desc_rvalue(s[2]))
                    rets.append((eof_at(b), d[0] == "const", show(d)))
            t = g.term(b)
            if isinstance(t, dict) and t["k"] == "call" and t.get("dest") == [0] and not g.is_cleanup(b):
                fn = t.get("fn") or ""
                args = [strip(g.desc_op(a)) for a in t["args"]]
                if fn.endswith("Option::<T>::map_or") and len(args) == 3 and args[2][0] == "agg" and args[2][1] == "closure":
                    rets.append((eof_at(b), args[1][0] == "const", show(args[1])))
                    for txt in closure_rets(args[2][2], show(args[0])):
                        rets.append((eof_at(b), False, txt))
                elif fn.endswith("Option::<T>::unwrap_or") and len(args) == 2 and args[0][0] == "call" and str(args[0][1]).endswith("Option::<T>::map"):
                    rets.append((eof_at(b), args[1][0] == "const", show(args[1])))
                    inner = args[0][2]
                    if len(inner) == 2 and inner[1][0] == "agg" and inner[1][1] == "closure":
                        for txt in closure_rets(inner[1][2], show(inner[0])):
                            rets.append((eof_at(b), False, txt))
                else:
                    rets.append((eof_at(b), False, show(strip(("call", fn, tuple(args))))))
        probs = []
        classes = set()
        for eof, is_const, txt in rets:
            classes.add(eof)
            if eof is True and not is_const and not (txt.endswith(".range.1") and "last" in txt):
                probs.append("at end of input the position is `%s`, not the end of the last lexeme" % txt[:70])
            if eof is False and not (txt.endswith(".range.0") and "self.offset" in txt):
                probs.append("before end of input the position is `%s`, not the start of the current lexeme" % txt[:70])
            if eof is None:
                probs.append("a return value `%s` is not decided by at_eof()" % txt[:60])
        n += len(classes & {True, False})
        if not {True, False} <= classes or not any(e is True and not c for e, c, _t in rets):
            probs.append("expected a position for end of input (end of the last lexeme) and one for the current lexeme")
        obs.append(bad(RULE, key, site(g), "; ".join(probs)) if probs else ok(RULE, key, site(g), "current lexeme's start, or the end of the last lexeme at end of input"))
    g = prog.fn("jrsonnet_ir_parser::Parser::<'a>::span_end")
    key = "span_end"
    if g is None:
        obs.append(bad(RULE, key, "", "Parser::span_end not found"))
    else:
        ds = [show(strip(g.desc_rvalue(s[2]))) for b in sorted(g.live_blocks) for s in g.stmts(b) if s[0] == "a" and s[1] == [0]]
        n += 1
        good = len(ds) == 1 and ds[0].endswith(".range.1") and "(self.offset Sub 1)" in ds[0]
        obs.append(ok(RULE, key, site(g), "end of the previous lexeme") if good else bad(RULE, key, site(g), "span end is `%s`, not the end of the previous lexeme" % ds))
    g = prog.fn("jrsonnet_ir_parser::Parser::<'a>::error")
    key = "error-position"
    if g is not None:
        n += 1
        good = False
        for b in sorted(g.live_blocks):
            for s in g.stmts(b):
                if s[0] == "a" and s[2][0] == "agg" and "ParseErrorLocation" in str(s[2][2]):
                    d = show(strip(g.desc_rvalue(s[2])))
                    good = "span_start(" in d
        obs.append(ok(RULE, key, site(g), "ParseError.location.offset = span_start()") if good else bad(RULE, key, site(g), "the error offset is not span_start()"))
    else:
        obs.append(bad(RULE, key, "", "Parser::error not found"))
    return obs, [Floor(RULE, "provenance sites", n, 13)], {"prov_sites": n}


# ---------------------------------------------------------------------------------------------------------------
# R-TRIVIA

def _kind_class(prog, path, seen=None):
    """set of SyntaxKind names a predicate accepts: patterns with a `true` arm in its HIR, or the class of a resolved can_cast callee"""
    seen = seen or set()
    if path in seen:
        return set()
    seen.add(path)
    out = set()
    h = prog.hir.get(path)
    bodies = [h["body"]] if h else []
    for body in bodies:
        for m in H.nodes(body, "match"):
            for arm in m[2]:
                if H.lit_value(arm[2]) is True:
                    out |= {v.rsplit("::", 1)[-1] for v in H.pat_variants(arm[0]) if "SyntaxKind" in v}
    g = prog.fn(path)
    hosts = ([g] if g is not None else []) + [c for c in prog.fns.values() if c.kind == "Closure" and c.root == path]
    for h2 in hosts:
        for b, t in h2.calls():
            c = t.get("res") or t.get("fn") or ""
            if c.endswith("::can_cast") and "Trivia" in c:
                out |= _kind_class(prog, c, seen)
    return out


def run_trivia(prog):
    RULE = "R-TRIVIA"
    obs = []
    sites = {
        "token filter in front of the parser": "jrsonnet_rowan_parser::parse",
        "tree builder (Sink::skip_whitespace)": "jrsonnet_rowan_parser::event::Sink::<'i>::skip_whitespace",
    }
    classes = {}
    for what, path in sites.items():
        g = prog.fn(path)
        if g is None:
            obs.append(bad(RULE, "trivia-class:%s" % short_path(path), "", "%s not found" % path))
            continue
        # closures: HIR lives in the parent body; take MIR-resolved callee or the closure's own patterns
        cls = _kind_class(prog, path)
        if not cls:
            root = prog.hir.get(g.root or "")
            if root:
                for c in H.nodes(root["body"], "closure"):
                    if c[1] == path:
                        for m in H.nodes(c[3], "match"):
                            for arm in m[2]:
                                if H.lit_value(arm[2]) is True:
                                    cls |= {v.rsplit("::", 1)[-1] for v in H.pat_variants(arm[0]) if "SyntaxKind" in v}
        classes[what] = (path, cls, g)
    if len(classes) == 2:
        (w1, (p1, c1, g1)), (w2, (p2, c2, g2)) = classes.items()
        key = "trivia-class:agree"
        if c1 and c1 == c2:
            obs.append(ok(RULE, key, site(g2), "both sites treat the same %d kinds as trivia: %s" % (len(c1), sorted(c1))))
        else:
            obs.append(bad(RULE, key, site(g2), "the %s skips %s but the %s skips %s: parser events and lexemes get out of step, text is lost or mislabelled"
                           % (w1, sorted(c1), w2, sorted(c2))))
    # token text provenance
    g = prog.fn("jrsonnet_rowan_parser::event::Sink::<'i>::token")
    key = "token-text"
    if g is None:
        obs.append(bad(RULE, key, "", "Sink::token not found"))
    else:
        good_text = good_inc = False
        for b, t in g.calls():
            if (t.get("fn") or "").endswith("GreenNodeBuilder::<'cache>::token") or "GreenNodeBuilder" in (t.get("fn") or "") and (t.get("fn") or "").endswith("::token"):
                d = strip(g.desc_op(t["args"][2]))
                while d[0] in ("ref", "deref"):
                    d = d[1]
                if d[0] == "field" and d[2] == "text":
                    r = _resolve_index_desc(g, d[1])
                    good_text = r is not None and show(r[0]).replace("*", "") == "self.lexemes" and r[1] == "self.offset"
        for b in sorted(g.live_blocks):
            for s in g.stmts(b):
                if s[0] == "a" and len(s[1]) > 1 and str(s[1][-1]).endswith(":offset"):
                    d = strip(g.desc_rvalue(s[2]))
                    good_inc = show(d) in ("(self.offset Add 1).0",)
        obs.append(ok(RULE, key, site(g), "a tree token's text is lexemes[offset].text and offset advances by exactly one") if good_text and good_inc else
                   bad(RULE, key, site(g), "Sink::token does not copy lexemes[offset].text and advance offset by one (text %s, advance %s)" % (good_text, good_inc)))
    # who may add tokens to the green tree
    callers = []
    for f in prog.fns.values():
        if f.crate.split(".")[0] != "jrsonnet_rowan_parser":
            continue
        for b, t in f.calls():
            c = t.get("fn") or ""
            if "GreenNodeBuilder" in c and c.endswith("::token"):
                callers.append(f.path)
    key = "token-writer"
    only = "jrsonnet_rowan_parser::event::Sink::<'i>::token"
    obs.append(ok(RULE, key, "", "GreenNodeBuilder::token is called only from Sink::token") if callers and set(callers) == {only} else
               bad(RULE, key, "", "GreenNodeBuilder::token is called from %s" % sorted(set(callers))))
    return obs, [Floor(RULE, "obligations", len(obs), 3)], {}
