"""R-REGISTRY: std name -> builtin -> documented signature -> distinguishing callee, chained through the
registry array of stdlib_uncached (never through Rust identifiers alone)."""
import json
import os
import re

from .. import hir as H
from ..mir import rel_fact, strip, show, short_path, contains
from ..report import ok, bad, info, site, Floor, VERIF

RULE = "R-REGISTRY"


def load_spec():
    with open(os.path.join(VERIF, "spec", "stdlib.json")) as fh:
        return json.load(fh)["functions"]


def registry(prog):
    h = prog.hir.get("jrsonnet_stdlib::stdlib_uncached")
    pairs = {}
    if h is None:
        return None
    for x in H.walk(h["body"]):
        if H.tag(x) == "tup" and len(x[1]) == 2 and H.tag(x[1][0]) == "lit" and x[1][0][1] == "str" and H.tag(x[1][1]) == "path":
            d = H.def_path(x[1][1])
            m = re.search(r"::(\w+)::_::<impl [\w:]*?(builtin_\w+)>::INST", d or "")
            if m:
                pairs.setdefault(x[1][0][2], []).append(m.group(2))
    return pairs


def fn_for(prog, ident):
    c = [p for p in prog.fns if p.startswith("jrsonnet_stdlib::") and p.endswith("::" + ident) and prog.fns[p].kind == "Fn"]
    return prog.fns[c[0]] if len(c) == 1 else None


def callee_strings(prog, f):
    """descriptive strings of every call in f and its closures: resolved path, unresolved path, generic args, constant args"""
    out = []
    hosts = [f] + [c for c in prog.fns.values() if c.kind == "Closure" and c.root == f.path]
    for h in hosts:
        for b, t in h.calls():
            if h.is_cleanup(b) or b not in h.live_blocks:
                continue
            res = t.get("res") or ""
            fn = t.get("fn") or ""
            ga = ",".join(t.get("gargs") or [])
            consts = []
            for a in t["args"]:
                d = strip(h.desc_op(a))
                if d[0] == "const" and isinstance(d[1], (bool, int)) and (d[2] if len(d) > 2 else "") == "bool" or (d[0] == "const" and a[0] == "c" and a[1] == "bool"):
                    consts.append("true" if d[1] else "false")
            s = "%s|%s<%s>" % (res, fn, ga)
            if consts:
                s += "(%s)" % ",".join(consts)
            out.append(s)
    return out


def matches(pattern, strings):
    """pattern forms: 'substr', 'substr(true)', 'Trait::method<garg-substr'"""
    m = re.match(r"^(.*?)(?:\((true|false)\))?$", pattern)
    core, const = m.group(1), m.group(2)
    garg = None
    if "<" in core and not core.startswith("<") and "::<" not in core:
        core, garg = core.split("<", 1)
    for s in strings:
        head = s.split("(")[0]
        # the pattern has to end at an identifier boundary: `f64::<impl f64>::round` is not matched by `..::round_ties_even`
        i = head.find(core)
        hit = False
        while i != -1:
            nxt = head[i + len(core):i + len(core) + 1]
            if not (nxt.isalnum() or nxt == "_") or not (core[-1].isalnum() or core[-1] == "_"):
                hit = True
                break
            i = head.find(core, i + 1)
        if not hit:
            continue
        if garg is not None:
            g = s[s.find("<", s.find("|")):]
            if garg not in g:
                continue
        if const is not None and not s.endswith("(%s)" % const) and ("(%s" % const) not in s and (",%s" % const) not in s:
            continue
        return True
    return False


def run(prog, names=None):
    spec = load_spec()
    reg = registry(prog)
    if reg is None:
        return [bad(RULE, "registry:anchor", "", "stdlib_uncached not found")], [], {}
    obs = []
    checked = 0
    # no name registered twice
    dup = [n for n, v in reg.items() if len(v) > 1]
    obs.append(ok(RULE, "registry:unique", "", "%d std names, none registered twice" % len(reg)) if not dup else
               bad(RULE, "registry:unique", "", "std names registered more than once: %s" % dup))
    for name in sorted(spec):
        if names is not None and name not in names:
            continue
        row = spec[name]
        checked += 1
        if name not in reg:
            obs.append(bad(RULE, "std.%s:registered" % name, "", "std.%s is documented but not registered in stdlib_uncached" % name))
            continue
        ident = reg[name][0]
        f = fn_for(prog, ident)
        if f is None:
            obs.append(bad(RULE, "std.%s:builtin" % name, "", "builtin function %s bound to std.%s not found" % (ident, name)))
            continue
        st = site(f)
        # signature
        got = [a for a in f.arg_names]
        want = row["params"]
        ext = row.get("extensions", [])
        # `preserve_order` is the trailing parameter every object-walking builtin gains under feature exp-preserve-order
        if got[:len(want)] == want and all(x in ext or x == "preserve_order" for x in got[len(want):]):
            obs.append(ok(RULE, "std.%s:signature" % name, st, "(%s)" % ", ".join(got), nontrivial=len(want) > 1))
        else:
            obs.append(bad(RULE, "std.%s:signature" % name, st, "std.%s is bound to %s(%s) but is documented as (%s): named-argument calls break, or the registry "
                           "entry points at the wrong builtin" % (name, ident, ", ".join(str(g) for g in got), ", ".join(want))))
        # distinguishing callees
        if row.get("call") or row.get("nocall"):
            cs = callee_strings(prog, f)
            # an entry may be a list of alternatives: equivalent primitives that distinguish the function equally well
            missing = [p for p in row.get("call", []) if not (any(matches(q, cs) for q in p) if isinstance(p, list) else matches(p, cs))]
            forbidden = [p for p in row.get("nocall", []) if matches(p, cs)]
            key = "std.%s:primitive" % name
            if missing or forbidden:
                why = []
                if missing:
                    why.append("does not call %s" % missing)
                if forbidden:
                    why.append("calls %s" % forbidden)
                obs.append(bad(RULE, key, st, "std.%s (%s) %s%s" % (name, ident, "; ".join(why), (" -- " + row["note"]) if row.get("note") else "")))
            else:
                obs.append(ok(RULE, key, st, "calls %s%s" % (row.get("call", []), (" and not %s" % row["nocall"]) if row.get("nocall") else "")))
    floors = [Floor(RULE, "documented functions checked", checked, 40 if names is None else max(1, len(names) - 2))]
    return obs, floors, {"std_names_registered": len(reg), "documented_functions_checked": checked}


def check_extras(prog):
    """targeted structural checks behind C10/C11/C13 that the callee table cannot express"""
    obs = []
    # std.get: the visibility test dominates the field read (a hidden field's value is never forced when inc_hidden=false)
    f = fn_for(prog, "builtin_get")
    key = "std.get:lazy-hidden"
    if f is None:
        obs.append(bad(RULE, key, "", "builtin_get not found"))
    else:
        has = [b for b, t in f.calls() if (t.get("res") or "").endswith("ObjValue::has_field_ex") and not f.is_cleanup(b)]
        get = [b for b, t in f.calls() if (t.get("res") or "").endswith("ObjValue::get") and not f.is_cleanup(b)]
        safe = bool(has and get)
        found_edge = False
        inc_edges = set()
        for u, v, (d, val) in f._cond_edge_list():
            sd = strip(d)
            if (sd == ("param", 4) and val is True) or (sd[0] == "un" and sd[1] == "Not" and sd[2] == ("param", 4) and val is False):
                inc_edges.add((u, v))
                found_edge = True
        # every path from entry to the field read passes the visibility test or the inc_hidden == true edge
        seen = {0}
        st = [0]
        while st:
            x = st.pop()
            if x in get:
                safe = False
                break
            if x in has:
                continue
            for y in f.succs[x]:
                if (x, y) in inc_edges or y in seen:
                    continue
                seen.add(y)
                st.append(y)
        if safe and found_edge:
            obs.append(ok(RULE, key, site(f), "with inc_hidden=false the field is read only after the visibility test"))
        else:
            obs.append(bad(RULE, key, site(f), "std.get reads (forces) the field before testing its visibility: a hidden field that errors becomes observable with inc_hidden=false"))
    # sort: the two generic comparators (identity / keyF) are siblings: same callees
    a = [c for c in prog.fns.values() if c.kind == "Closure" and c.root == "jrsonnet_stdlib::sort::sort_identity"]
    b = [c for c in prog.fns.values() if c.kind == "Closure" and c.root == "jrsonnet_stdlib::sort::sort_keyf"]

    def sig(c, depth=1):
        # callees of the comparator closure; a local helper of sort.rs is expanded to its own callees (the comparator may be a
        # shared function called from both closures)
        out = []
        for bb, t in c.calls():
            if c.is_cleanup(bb) or "drop" in (t.get("fn") or ""):
                continue
            callee = t.get("res") or t.get("fn") or ""
            g = prog.fns.get(callee)
            if depth > 0 and g is not None and g.file.endswith("jrsonnet-stdlib/src/sort.rs") and g.kind != "Closure":
                out.extend(sig(g, depth - 1))
            else:
                out.append(callee)
        return sorted(out)
    ca = [sig(c) for c in a if any("evaluate_compare_op" in x for x in sig(c))]
    cb = [sig(c) for c in b if any("evaluate_compare_op" in x for x in sig(c))]
    key = "std.sort:comparator-siblings"
    if ca and cb and ca[0] == cb[0]:
        obs.append(ok(RULE, key, "", "the generic comparators of sort_identity and sort_keyf record the first error the same way (%s)" % [short_path(x) for x in ca[0]]))
    else:
        obs.append(bad(RULE, key, "", "the generic comparators of sort_identity and sort_keyf differ (%s vs %s): one of them loses the 'not comparable' error" % (
            [short_path(x) for x in (ca[0] if ca else [])], [short_path(x) for x in (cb[0] if cb else [])])))
    # parse_nat: digit validity is the strict `digit < BASE`
    # the digit test lives in parse_nat itself or in a closure of it (fold closure / loop body)
    cl = [c for c in prog.fns.values() if (c.path == "jrsonnet_stdlib::strings::parse_nat" or (c.kind == "Closure" and c.root and c.root == "jrsonnet_stdlib::strings::parse_nat"))]
    key = "parse_nat:digit-range"
    good = False
    for c in cl:
        for u, v, (d, val) in c._cond_edge_list():
            sd = strip(d)
            if sd[0] != "bin" or (sd[2][0] == "const" and sd[3][0] == "const"):
                continue        # `1 <= BASE && BASE <= 16` of the debug assertion: not a test of the digit
            # canonical form of the edge: (op, a, b) with op in Lt/Le/Eq/Ne; BASE is a constant of type u32 with no literal value
            r = rel_fact(d, val) if isinstance(val, bool) else None
            if not r:
                continue
            is_base = lambda x: x[0] == "const" and x[1] is None
            if r[0] == "Lt" and is_base(r[2]) and not is_base(r[1]):
                good = True             # digit < BASE   (also spelled BASE > digit, !(digit >= BASE))
            elif r[0] == "Le" and is_base(r[2]) and not is_base(r[1]) and val is True and sd[1] in ("Le", "Ge"):
                good = False            # digit <= BASE accepted
                break
    obs.append(ok(RULE, key, "", "a digit is accepted only if digit < BASE") if good else
               bad(RULE, key, "", "parse_nat does not test `digit < BASE` strictly: the first out-of-range digit (8 in octal, g in hex) would be accepted"))
    return obs
