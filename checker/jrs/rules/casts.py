"""R-CAST: a float -> integer `as` cast saturates silently (and maps NaN to 0).  Where the float is a program value, the cast has to be
dominated by a range test of that value on both sides (or be a reviewed instance whose saturation is the intended meaning)."""
import re

from ..mir import strip, show, short_path, contains, same_modulo_depth
from ..report import ok, bad, info, site, Floor
from . import arith

RULE = "R-CAST"
WRAP = ("<impl f64>::floor", "<impl f64>::trunc", "<impl f64>::abs", "<impl f64>::round", "<impl f64>::ceil", "NumValue::get")


def core(d):
    """strip rounding wrappers: the range test may be on x while the cast is of x.floor()"""
    d = strip(d)
    while d[0] == "call" and any(short_path(str(d[1])).endswith(w.split("::")[-1]) and ("f64" in str(d[1]) or "NumValue" in str(d[1])) for w in WRAP) and d[2]:
        d = strip(d[2][0])
    return d


def typed_bounds(prog, f, b):
    """the cast sits on the success edge of `<Self as Typed>::TYPE.check(&value)` and TYPE is BoundedNumber(Some(lo), Some(hi))"""
    from .. import hir as H
    if not f.self_ty or not any(strip(x[2][0])[0] == "discr" and "CheckType" in show(strip(x[2][0])) and x[2][1] == ("variant", "Continue") for x in f.facts_at(b)):
        return None
    h = prog.hir.get("<%s as jrsonnet_evaluator::typed::conversions::Typed>::TYPE" % f.self_ty)
    if not h:
        return None
    for c in H.nodes(h["body"], "call"):
        if H.def_path(c[1]) == "jrsonnet_types::ComplexValType::BoundedNumber":
            args = c[2]
            if len(args) == 2 and all(H.tag(a) == "call" and H.def_path(a[1]) == "core::option::Option::Some" for a in args):
                return "range-checked by the type descriptor: <%s as Typed>::TYPE = BoundedNumber(Some(..), Some(..)) is checked first" % short_path(f.self_ty)
    return None


def _records(prog):
    if getattr(prog, "_cast_records", None) is not None:
        return prog._cast_records
    out = []
    for f in sorted(prog.fns.values(), key=lambda f: f.path):
        if not arith.in_scope(f):
            continue
        per = {}
        for b in sorted(f.live_blocks):
            if f.is_cleanup(b):
                continue
            for s in f.stmts(b):
                if s[0] != "a" or s[2][0] != "cast" or s[2][1] != "FloatToInt":
                    continue
                d = f.desc_op(s[2][2])
                c = core(d)
                root = f.root or f.path
                base = "%s:%s->%s" % (root, re.sub(r"_\d+", "_", show(c)[:60]), s[2][3])
                k = per.get(base, 0) + 1
                per[base] = k
                out.append((f, b, s, d, c, base + ("#%d" % k if k > 1 else "")))
    prog._cast_records = out
    return out


def _deep(d):
    """a descriptor large enough that a match modulo cut-off depth is not an accident (not a bare `unknown` or a constant)"""
    return isinstance(d, tuple) and d[:1] not in (("unknown",), ("const",)) and len(show(d)) > 40


def run(prog, pred=None, floor=1):
    reviewed = arith.load_table("cast_reviewed.json")
    obs = []
    n = 0
    recs = _records(prog)
    moved = arith.MovedSites(reviewed, {r[5] for r in recs})
    for f, b, s, d, c, key in recs:
        if pred is not None and not pred(f):
            continue
        n += 1
        lower = upper = False
        for fact in arith.cmp_facts(f, b):
            if len(fact) != 3 or not isinstance(fact[1], tuple) or not isinstance(fact[2], tuple):
                continue
            op, a, bb = fact
            ca, cb = core(a), core(bb)
            ea, eb = ca == c or (_deep(ca) and same_modulo_depth(ca, c)), cb == c or (_deep(cb) and same_modulo_depth(cb, c))
            if ea and not eb:
                if op in ("Ge", "Gt"):
                    lower = True
                if op in ("Le", "Lt"):
                    upper = True
            elif eb and not ea:
                if op in ("Le", "Lt"):
                    lower = True
                if op in ("Ge", "Gt"):
                    upper = True
        st = site(f, s[3])
        typed = typed_bounds(prog, f, b)
        if typed:
            obs.append(ok(RULE, key, st, typed))
        elif lower and upper:
            obs.append(ok(RULE, key, st, "range-checked on both sides before the cast"))
        elif key in reviewed and reviewed[key].get("class") == "structural" and \
                (reviewed[key].get("needs") is None or (reviewed[key]["needs"] == "lower" and lower) or (reviewed[key]["needs"] == "upper" and upper)):
            obs.append(ok(RULE, key, st, "reviewed: " + reviewed[key]["reason"]))
        elif key in reviewed and reviewed[key].get("needs"):
            obs.append(bad(RULE, key, st, "`%s as %s`: the reviewed reason (%s) rests on a %s-bound test of the value that no longer dominates the cast; "
                           "negative values saturate to 0 silently" % (show(strip(d))[:60], s[2][3], reviewed[key]["reason"][:80], reviewed[key]["needs"])))
        else:
            mv = None if key in reviewed else moved.take(key, lambda e: e.get("class") == "structural")
            if mv:
                obs.append(ok(RULE, key, st, "reviewed (site moved within its module): " + mv["reason"]))
                continue
            why = reviewed.get(key, {}).get("reason", "")
            obs.append(bad(RULE, key, st, "`%s as %s` saturates silently for values outside the integer's range (NaN becomes 0): %s"
                           % (show(strip(d))[:70], s[2][3], why or "no dominating range test on both sides, not a reviewed instance")))
    return obs, [Floor(RULE, "float->int casts", n, floor)], {"float_to_int_casts": n}
