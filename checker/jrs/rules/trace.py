"""R-COVER/Trace + interner ownership (C18): every owning path to a Cc is traced; interned handles own exactly one
counted reference and give it back on drop."""
from ..mir import rel_fact, strip, show, short_path, contains
from ..report import ok, bad, info, site, Floor

RULE = "R-TRACE"
# dyn traits whose definition has `Acyclic` as a supertrait (verified by reading; listed with the file that declares them)
ACYCLIC_DYN = {
    "jrsonnet_ir::source::SourcePathT": "trait SourcePathT: Acyclic + Debug + Display (crates/jrsonnet-ir/src/source.rs)",
    "jrsonnet_evaluator::import::ImportResolver": "trait ImportResolver: Acyclic + Any (crates/jrsonnet-evaluator/src/import.rs)",
    "jrsonnet_stdlib::TracePrinter": "trait TracePrinter: Acyclic (crates/jrsonnet-stdlib/src/lib.rs)",
    "jrsonnet_evaluator::function::builtin::StaticBuiltin": "only held as &'static dyn StaticBuiltin (trait StaticBuiltin: Builtin + Send + Sync): a static item cannot own a thread-local Cc",
}
CRATES = ("jrsonnet_evaluator", "jrsonnet_stdlib", "jrsonnet_interner", "jrsonnet_ir", "jsonnet", "jrsonnet_cli", "jrsonnet_types", "jrsonnet")


def run(prog):
    obs = []
    impl_kinds = {}
    for unit, i in prog.impls():
        t = i.get("trait") or ""
        if t in ("jrsonnet_gcmodule::trace::Trace", "jrsonnet_gcmodule::trace::Acyclic"):
            key = i.get("self_adt") or i["self_ty"]
            impl_kinds.setdefault(key, set()).add((t.rsplit("::", 1)[1], "derive" if i["exp"] else "manual"))
    # which fields does each Trace::trace body actually visit?  (semantic: independent of attribute spelling)
    visited = {}
    for f in prog.fns.values():
        if f.impl_trait == "jrsonnet_gcmodule::trace::Trace" and f.path.endswith("::trace"):
            adt = None
            for unit, i in prog.impls():
                pass
            vs = set()
            for b, t in f.calls():
                if not (t.get("fn") or "").endswith("::trace") or "jrsonnet_gcmodule" not in (t.get("fn") or "") or not t["args"]:
                    continue
                d = strip(f.desc_op(t["args"][0]))
                # field(<as(param1, Variant)>|param1, name)
                while d and d[0] == "field" and d[1][0] == "field":
                    d = d[1]
                if d and d[0] == "field":
                    base = d[1]
                    variant = base[2] if base[0] == "as" else None
                    vs.add((variant, d[2]))
            visited[f.self_ty] = vs
    n_skip = 0
    n_acyclic = 0
    n_manual = 0
    for unit, a in sorted(prog.adts(), key=lambda x: x[1]["path"]):
        p = a["path"]
        if p.split("::")[0] not in CRATES:
            continue
        kinds = impl_kinds.get(p, set())
        st = "%s:%s" % (a["file"], a["line"])
        is_acyclic = any(k == "Acyclic" for k, how in kinds)
        manual_trace = ("Trace", "manual") in kinds
        for v in a["variants"]:
            for f in v["fields"]:
                reach = set(f["reach"])
                badr = sorted(r for r in reach if r == "Cc" or (r.startswith("dyn:") and r[4:] not in ACYCLIC_DYN) or r == "opaque")
                skip = False
                if ("Trace", "derive") in kinds and not is_acyclic:
                    vs = None
                    for ty, v_ in visited.items():
                        if ty == p or ty.startswith(p + "<"):
                            vs = v_
                    if vs is not None:
                        names = {n for (vv, n) in vs if vv in (None, v["name"])}
                        skip = f["name"] not in names
                fname = "%s::%s.%s" % (short_path(p), v["name"], f["name"])
                if skip:
                    n_skip += 1
                    key = "%s:skip" % fname
                    if badr:
                        obs.append(bad(RULE, key, st, "field `%s: %s` is #[trace(skip)] but can own %s: a cycle through it is invisible to the collector and leaks"
                                       % (f["name"], f["ty"][:80], badr)))
                    else:
                        obs.append(ok(RULE, key, st, "skipped field cannot reach a Cc (%s)" % (f["ty"][:60])))
                if is_acyclic:
                    key = "%s:acyclic" % fname
                    if badr:
                        obs.append(bad(RULE, key, st, "%s is declared Acyclic but its field `%s: %s` can own %s: the collector never looks inside, so cycles through it leak"
                                       % (short_path(p), f["name"], f["ty"][:80], badr)))
                    elif reach:
                        obs.append(ok(RULE, key, st, "only reaches %s (Acyclic-bounded)" % sorted(reach), nontrivial=True))
                if manual_trace and not is_acyclic:
                    key = "%s:manual-trace" % fname
                    n_manual += 1
                    # a hand-written `trace()` body is judged like a derived one: the field is fine when the body visits it
                    vs = None
                    for ty, v_ in visited.items():
                        if ty == p or ty.startswith(p + "<"):
                            vs = v_
                    if badr and vs is not None and (None, f["name"]) in vs or badr and vs is not None and (v["name"], f["name"]) in vs:
                        obs.append(ok(RULE, key, st, "hand-written Trace impl visits `%s` (which can own %s)" % (f["name"], badr)))
                    elif badr:
                        obs.append(bad(RULE, key, st, "hand-written Trace impl for %s while field `%s` can own %s" % (short_path(p), f["name"], badr)))
                    else:
                        obs.append(ok(RULE, key, st, "hand-written Trace impl; field cannot reach a Cc"))
        if is_acyclic:
            n_acyclic += 1
            obs.append(ok(RULE, "%s:acyclic-type" % short_path(p), st, "Acyclic type: no field owns a Cc", nontrivial=False)
                       if not any(o.status == "open" and o.key.startswith("%s:%s::" % (RULE, short_path(p))) for o in obs) else
                       info(RULE, "%s:acyclic-type" % short_path(p), st, "see field obligations"))
    floors = [Floor(RULE, "#[trace(skip)] fields", n_skip, 8), Floor(RULE, "Acyclic types", n_acyclic, 40)]
    return obs, floors, {"trace_skip_fields": n_skip, "acyclic_types": n_acyclic, "manual_trace_fields": n_manual}


def run_interner(prog):
    R = "R-INTERN"
    obs = []
    I = "jrsonnet_interner::"
    # (1) handles are constructed only inside the interner, from a clone of an Inner (one counted reference each)
    sites = []
    for f in prog.fns.values():
        for b in sorted(f.live_blocks):
            for s in f.stmts(b):
                if s[0] == "a" and s[2][0] == "agg" and s[2][1] == "adt" and s[2][2] in (I + "IStr", I + "IBytes"):
                    sites.append((f, b, s))
    for f, b, s in sorted(sites, key=lambda x: x[0].path):
        key = "%s:constructs(%s)" % (f.path, short_path(s[2][2]))
        d = strip(f.desc_op(s[2][4][0]))
        op = s[2][4][0]
        cur = op[1][0] if op[0] in ("mv", "cp") and len(op[1]) == 1 else None

        def all_from_clone(l, depth=0):
            """every assignment of the local (it may be assigned on several paths: `let k = match .. { a => x.clone(), b => y.clone() }`)
            is the result of Inner::clone, directly or through plain moves"""
            ds = f.defs.get(l, [])
            if not ds or depth > 6:
                return False
            for df in ds:
                if len(df[3]) != 1:
                    return False
                if df[0] == "call":
                    c = df[4].get("res") or df[4].get("fn") or ""
                    if not c.endswith("inner::Inner as core::clone::Clone>::clone"):
                        return False
                elif df[0] == "s" and df[4][0] == "use" and df[4][1][0] in ("mv", "cp") and len(df[4][1][1]) == 1:
                    if not all_from_clone(df[4][1][1][0], depth + 1):
                        return False
                else:
                    return False
            return True
        from_clone = cur is not None and all_from_clone(cur)
        if not f.path.startswith(I) and not f.path.startswith("<" + I):
            obs.append(bad(R, key, site(f, s[3]), "an interned handle is fabricated outside the interner crate"))
        elif from_clone:
            obs.append(ok(R, key, site(f, s[3]), "built from Inner::clone (a counted reference)"))
        else:
            obs.append(bad(R, key, site(f, s[3]), "handle built from %s, not from a fresh Inner::clone: the reference count would not match the number of handles" % show(d)))
    # (2) nothing in the interner forgets or leaks a handle
    leaks = []
    control = 0
    for f in prog.fns.values():
        for b, t in f.calls():
            c = t.get("res") or t.get("fn") or ""
            if c == "core::mem::forget" or c.startswith("core::mem::manually_drop::ManuallyDrop::<T>::new") or c.endswith("::into_raw") and "Inner" in c:
                if f.crate.startswith("jrsonnet_interner"):
                    leaks.append((f, t, c))
                else:
                    control += 1
    for f, t, c in leaks:
        obs.append(bad(R, "%s:leaks(%s)" % (f.path, short_path(c)), site(f, t["line"]),
                       "%s in the interner: a handle whose Drop is skipped never returns its reference, so the entry can never leave the pool" % short_path(c)))
    if not leaks:
        if control == 0:
            obs.append(bad(R, "no-forget:control", "", "positive control lost: no mem::forget / ManuallyDrop call matched anywhere in the workspace (the matcher would be vacuous)"))
        else:
            obs.append(ok(R, "no-forget", "", "no mem::forget / ManuallyDrop in the interner (matcher sees %d such calls elsewhere in the workspace)" % control))
    # (3)+(4) both handle types give their pool entry back on drop, exactly when only this handle and the pool hold the value:
    # every call chain from Drop::drop to the removal from the pool passes the test strong_count <= 2 (however the code is split
    # into helpers -- maybe_unpool / unpool today)
    def threshold(f, b):
        for u, v, (d, val) in f.facts_at(b):
            r = rel_fact(d, val)
            if r and contains(r[1], lambda x: x[0] == "call" and str(x[1]).endswith("strong_count")) and \
                    ((r[0] == "Le" and r[2][:2] == ("const", 2)) or (r[0] == "Lt" and r[2][:2] == ("const", 3))):
                return True
        return False

    def removal_paths(f, inherited, depth, seen):
        """list of booleans, one per way of reaching a pool removal from f: was the threshold established on the way"""
        out = []
        hosts = [f] + [c for c in prog.fns.values() if c.kind == "Closure" and c.root == f.path]
        for h in hosts:
            for b, t in h.calls():
                if h.is_cleanup(b) or b not in h.live_blocks:
                    continue
                c = t.get("res") or t.get("fn") or ""
                okh = inherited or threshold(h, b)
                if c.endswith("::remove") and "hash" in c.lower():
                    out.append(okh)
                elif depth > 0 and c.startswith(I) and c in prog.fns and c not in seen and prog.fns[c].kind != "Closure":
                    out.extend(removal_paths(prog.fns[c], okh, depth - 1, seen | {c}))
        return out

    worst = None
    for ty in ("IStr", "IBytes"):
        f = prog.fn("<%s%s as core::ops::drop::Drop>::drop" % (I, ty))
        key = "%s:drop" % ty
        if f is None:
            obs.append(bad(R, key, "", "Drop for %s not found" % ty))
            continue
        paths = removal_paths(f, False, 3, {f.path})
        if not paths:
            obs.append(bad(R, key, site(f), "Drop for %s never removes the value from the pool: values dropped to zero references stay pooled" % ty))
        else:
            obs.append(ok(R, key, site(f), "Drop reaches the pool removal (%d path(s))" % len(paths)))
            worst = all(paths) if worst is None else (worst and all(paths))
    key = "maybe_unpool:threshold"
    obs.append(ok(R, key, "", "the pool entry is removed only when strong_count <= 2 (this handle + the pool)") if worst else
               bad(R, key, "", "a handle's Drop can remove the pool entry without the test strong_count <= 2 (or never tests it)"))
    # the count compared with the threshold is the masked reference count (the word also carries the UTF-8 flag bit)
    f = prog.fn(I + "inner::Inner::strong_count")
    key = "strong_count:masked"
    if f is None:
        obs.append(bad(R, key, "", "Inner::strong_count not found"))
    else:
        cs = [(t.get("res") or t.get("fn") or "") for b, t in f.calls() if not f.is_cleanup(b)]
        raw = any(s2[0] == "a" and s2[1] == [0] and s2[2][0] == "use" and s2[2][1][0] in ("cp", "mv") and
                  any(isinstance(pp, str) and pp.endswith(":utf8_refcnt") for pp in s2[2][1][1][1:]) for bb in f.live_blocks for s2 in f.stmts(bb))
        obs.append(ok(R, key, site(f), "strong_count() returns InnerHeader::refcnt() (flag bit masked off)") if any(c.endswith("InnerHeader::refcnt") for c in cs) and not raw else
                   bad(R, key, site(f), "strong_count() does not return InnerHeader::refcnt(): the raw word includes the UTF-8 flag bit, so `strong_count <= 2` never "
                       "holds for strings and they are never removed from the pool"))
    # (5) the refcount has exactly two writers: Inner::clone (+1) and Drop for Inner (-1)
    writers = sorted({cf.path for cf, b, t in prog.callers.get(I + "inner::InnerHeader::set_refcnt", [])})
    want = {I + "inner::Inner::clone", "<%sinner::Inner as core::clone::Clone>::clone" % I, "<%sinner::Inner as core::ops::drop::Drop>::drop" % I,
            I + "inner::Inner::new_raw"}
    key = "refcount:writers"
    extra = [w for w in writers if w not in want and not any(w.startswith(x) for x in want)]
    obs.append(ok(R, key, "", "set_refcnt is called only from %s" % [short_path(w) for w in writers]) if writers and not extra else
               bad(R, key, "", "unexpected writers of the reference count: %s" % [short_path(w) for w in (extra or writers)]))
    return obs, [Floor(R, "handle construction sites", len(sites), 3)], {"handle_construction_sites": len(sites)}
