"""R-COVER/formatter (C19): every child and every semantic token of every syntax node kind is consumed by the
formatter; every trivia list obtained from the tree is handed to format_comments; formatting is refused on errors."""
import collections

from ..mir import strip, show, short_path, contains
from ..report import ok, bad, info, site, Floor

RULE = "R-FMTCOVER"
N = "jrsonnet_rowan_parser::generated::nodes::"
NOT_ACCESSORS = ("kind", "cast", "can_cast", "syntax", "text")
# token accessors whose presence changes the meaning of the program (everything else is punctuation / keywords the
# printer re-emits as literals)
SEMANTIC_TOKENS = ("tailstrict_kw_token", "plus_token", "question_mark_token")
# nodes that consist of nothing but that token (printed as a literal)
LITERAL_NODES = ("DestructSkip",)


def run(prog):
    obs = []
    acc = [p for p, f in prog.fns.items() if p.startswith(N) and f.kind == "AssocFn" and not f.impl_trait and p.count("::") == 4
           and p.rsplit("::", 1)[1] not in NOT_ACCESSORS]
    called = collections.defaultdict(set)
    between = set()
    for f in prog.fns.values():
        if f.crate.split(".")[0] != "jrsonnet_formatter":
            continue
        for b, t in f.calls():
            c = t.get("res") or t.get("fn") or ""
            if c.startswith(N):
                called[c].add(f.root or f.path)
            if c.endswith("children::children_between") or c.endswith("children::children"):
                for g in t.get("gargs") or []:
                    between.add(g)
    n_child = n_tok = 0
    for p in sorted(acc):
        f = prog.fns[p]
        ret = f.locals[0]
        name = p.rsplit("::", 1)[1]
        node = p[len(N):].split("::")[0]
        is_token = "SyntaxToken" in ret
        if is_token and (name not in SEMANTIC_TOKENS or node in LITERAL_NODES):
            continue
        key = "%s::%s" % (node, name)
        if is_token:
            n_tok += 1
        else:
            n_child += 1
        if p in called:
            obs.append(ok(RULE, key, site(f), "consumed by %s" % sorted(short_path(c) for c in called[p])[:2], nontrivial=True))
            continue
        # list children walked through children_between::<T>
        if "AstChildren<" in ret:
            elem = ret[ret.index("AstChildren<") + 12:].rstrip(">")
            if any(g == elem or g.endswith("::" + elem.rsplit("::", 1)[-1]) for g in between):
                obs.append(ok(RULE, key, site(f), "list walked with children_between::<%s> (keeps the trivia between items)" % short_path(elem)))
                continue
        obs.append(bad(RULE, key, site(f), "%s::%s() is never read by the formatter: that %s of the node is dropped from the output%s"
                       % (node, name, "token" if is_token else "child", " (the program changes meaning)" if is_token else "")))
    # trivia lists reach format_comments
    obs.extend(check_trivia(prog))
    # refusal on syntax errors
    f = prog.fn("jrsonnet_formatter::format")
    key = "format:refuses-errors"
    good = False
    if f is not None:
        for u, v, (d, val) in f._cond_edge_list():
            sd = strip(d)
            if sd[0] == "call" and sd[1].endswith("::is_empty") and contains(sd, lambda x: x[0] == "call" and x[1].endswith("jrsonnet_rowan_parser::parse")):
                if val is False:
                    region = {v} | f.reach_from(v)
                    # the error edge must not reach the dprint formatting call
                    fm = [b for b, t in f.calls() if (t.get("fn") or "").startswith("dprint_core::formatting::")]
                    if fm and not (set(fm) & region):
                        good = True
            if sd[0] == "un" and sd[1] == "Not" and val is True and contains(sd, lambda x: x[0] == "call" and x[1].endswith("::is_empty")):
                region = {v} | f.reach_from(v)
                fm = [b for b, t in f.calls() if (t.get("fn") or "").startswith("dprint_core::formatting::")]
                if fm and not (set(fm) & region):
                    good = True
    obs.append(ok(RULE, key, site(f) if f else "", "a non-empty parser error list returns Err before anything is printed") if good else
               bad(RULE, key, site(f) if f else "", "format() does not refuse input whose parse produced errors"))
    floors = [Floor(RULE, "child accessors", n_child, 60), Floor(RULE, "semantic token accessors", n_tok, 3)]
    return obs, floors, {"child_accessors": n_child, "semantic_token_accessors": n_tok, "children_between_types": sorted(short_path(g) for g in between)}


def check_trivia(prog):
    """every `let (children, ending) = children_between::<T>(..)` in a printer keeps both halves: the ending comments
    are bound to a used name (not `_x`) and the children's before_trivia / inline_trivia are read in that printer (or in a
    helper nested in it) and format_comments is called"""
    from .. import hir as H
    obs = []
    C = "jrsonnet_formatter::children::"
    n = 0
    for path, h in sorted(prog.hir.items()):
        if not path.startswith(("jrsonnet_formatter::", "<jrsonnet_")) or "jrsonnet_formatter" not in path:
            continue
        f = prog.fn(path)
        lets = []
        for x in H.nodes(h["body"], "let"):
            init = x[2]
            if init is None:
                continue
            c = H.strip_try(init)
            if H.tag(c) == "call" and (H.def_path(c[1]) or "").startswith(C + "children_between"):
                lets.append((x, c))
        if not lets:
            continue
        # field reads and format_comments calls in this printer and the helpers nested in it
        fields = set()
        fc = 0
        used_locals = set()
        # ... and in the formatter's own free helper functions they call (`print_own_line_item(child, out)`), to depth 2
        scope = [p2 for p2 in prog.hir if p2 == path or p2.startswith(path + "::")]
        frontier = list(scope)
        for _ in range(2):
            nxt = []
            for p2 in frontier:
                for cnode in H.calls(prog.hir[p2]["body"]):
                    q = H.def_path(cnode[1]) or ""
                    if q.startswith("jrsonnet_formatter::") and q in prog.hir and q not in scope and not q.startswith(C) \
                            and q != "jrsonnet_formatter::comments::format_comments" and prog.fn(q) is not None and not prog.fn(q).impl_trait:
                        scope.append(q)
                        nxt.append(q)
            frontier = nxt
        for p2 in scope:
            h2 = prog.hir[p2]
            if True:
                for y in H.walk(h2["body"]):
                    if H.tag(y) == "field":
                        fields.add(y[2])
                    if H.tag(y) == "path" and y[1][0] == "local":
                        used_locals.add(y[1][1])
                fc += sum(1 for _ in H.calls(h2["body"], path="jrsonnet_formatter::comments::format_comments"))
        for idx, (x, c) in enumerate(lets):
            n += 1
            pat = x[1]
            names = [b[0] for b in H.pat_binds(pat)]
            f_site = site(f, c[3] if len(c) > 3 else None)
            key = "%s:children_between#%d" % (short_path(path), idx + 1)
            problems = []
            if len(names) != 2:
                problems.append("result is not destructured into (children, ending comments)")
            else:
                ch, en = names
                if en.startswith("_") or en not in used_locals:
                    problems.append("the ending comments are bound to `%s` and never printed" % en)
                if not ({"before_trivia", "inline_trivia"} <= fields) or fc == 0:
                    problems.append("the children's before_trivia / inline_trivia are not passed to format_comments")
            if problems:
                obs.append(bad(RULE, key, f_site, "%s: %s -- comments in that position are dropped from the output" % (short_path(path), "; ".join(problems))))
            else:
                obs.append(ok(RULE, key, f_site, "children trivia and ending comments are printed"))
    obs.append(info(RULE, "trivia:sites", "", "%d children_between sites" % n))
    obs.extend(check_ending_all_paths(prog))
    return obs


def check_ending_all_paths(prog):
    """MIR, all paths: after `(children, ending) = children_between(..)` every path to a return hands `ending` to a call
    (format_comments or a helper) unless `ending.is_empty()` is known to be true on that path"""
    obs = []
    for f in sorted(prog.fns.values(), key=lambda f: f.path):
        if f.crate.split(".")[0] != "jrsonnet_formatter":
            continue
        k = 0
        for b, t in f.calls():
            if not (t.get("fn") or "").endswith("children::children_between") or f.is_cleanup(b) or b not in f.live_blocks:
                continue
            k += 1
            key = "%s:ending-all-paths#%d" % (short_path(f.root or f.path), k)
            dest = t["dest"][0]

            def is_ending(d):
                return contains(d, lambda x: x[0] == "field" and x[2] == "1" and strip(x[1])[0] == "call" and str(strip(x[1])[1]).endswith("children_between")) \
                    or contains(d, lambda x: x[0] == "field" and x[2] == "1" and strip(x[1]) == ("var", dest, None))

            # locals that hold the ending comments: the tuple field .1 is moved into a named local
            ending_locals = set()
            for bb in f.live_blocks:
                for s2 in f.stmts(bb):
                    if s2[0] == "a" and len(s2[1]) == 1 and s2[2][0] == "use" and s2[2][1][0] in ("mv", "cp"):
                        pl = s2[2][1][1]
                        if pl[0] == dest and len(pl) > 1 and str(pl[1]).startswith(".1"):
                            ending_locals.add(s2[1][0])

            def uses_ending(op):
                if op[0] in ("cp", "mv") and op[1][0] in ending_locals:
                    return True
                if op[0] in ("cp", "mv"):
                    sd = f.single_def(op[1][0])
                    if sd and sd[0] == "s" and sd[4][0] == "ref" and sd[4][2][0] in ending_locals:
                        return True
                return is_ending(strip(f.desc_op(op)))

            if not ending_locals:
                obs.append(info(RULE, key, site(f, t["line"]), "ending comments are not bound to a local (see children_between obligations)"))
                continue
            blockers = set()
            empty_true_edges = set()
            for bb, tt in f.calls():
                if any(uses_ending(a) for a in tt["args"]):
                    if (tt.get("fn") or "").endswith("EndingComments::is_empty"):
                        continue
                    blockers.add(bb)
            for u, v, (d, val) in f._cond_edge_list():
                sd = strip(d)
                if sd[0] == "call" and str(sd[1]).endswith("EndingComments::is_empty") and val is True:
                    empty_true_edges.add((u, v))
                if sd[0] == "un" and sd[1] == "Not" and strip(sd[2])[0] == "call" and str(strip(sd[2])[1]).endswith("EndingComments::is_empty") and val is False:
                    empty_true_edges.add((u, v))
            errs = {bb for bb, tt in f.calls() if "FromResidual" in (tt.get("fn") or "")}
            start = t.get("target")
            seen = {start}
            st = [start]
            while st:
                x = st.pop()
                if x in blockers:
                    continue
                for y in f.succs[x]:
                    if y in seen or f.is_cleanup(y) or y in errs or (x, y) in empty_true_edges:
                        continue
                    seen.add(y)
                    st.append(y)
            escaped = [r for r in f.returns() if r in seen and r not in blockers]
            if escaped:
                obs.append(bad(RULE, key, site(f, t["line"]), "%s: a path returns without handing the ending comments of this list to format_comments "
                               "(and without knowing that there are none): a comment before the closing bracket is dropped" % short_path(f.root or f.path)))
            else:
                obs.append(ok(RULE, key, site(f, t["line"]), "on every path the ending comments are printed or known to be empty"))
    return obs
