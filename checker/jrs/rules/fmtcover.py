"""R-COVER/formatter (C19): every child and every semantic token of every syntax node kind is consumed by the
formatter; every trivia list obtained from the tree is handed to format_comments; formatting is refused on errors."""
import collections

from ..mir import strip, show, short_path, contains
from ..report import ok, bad, info, site, Floor

RULE = "R-FMTCOVER"
N = "jrsonnet_rowan_parser::generated::nodes::"
NOT_ACCESSORS = ("kind", "cast", "can_cast", "syntax", "text")
# token accessors whose presence changes the meaning of the program (everything else is punctuation / keywords the
# printer re-emits as literals)
SEMANTIC_TOKENS = ("tailstrict_kw_token", "plus_token", "question_mark_token")
# nodes that consist of nothing but that token (printed as a literal)
LITERAL_NODES = ("DestructSkip",)


def run(prog):
    obs = []
    acc = [p for p, f in prog.fns.items() if p.startswith(N) and f.kind == "AssocFn" and not f.impl_trait and p.count("::") == 4
           and p.rsplit("::", 1)[1] not in NOT_ACCESSORS]
    called = collections.defaultdict(set)
    between = set()
    for f in prog.fns.values():
        if f.crate.split(".")[0] != "jrsonnet_formatter":
            continue
        for b, t in f.calls():
            c = t.get("res") or t.get("fn") or ""
            if c.startswith(N):
                called[c].add(f.root or f.path)
            if c.endswith("children::children_between") or c.endswith("children::children"):
                for g in t.get("gargs") or []:
                    between.add(g)
    n_child = n_tok = 0
    for p in sorted(acc):
        f = prog.fns[p]
        ret = f.locals[0]
        name = p.rsplit("::", 1)[1]
        node = p[len(N):].split("::")[0]
        is_token = "SyntaxToken" in ret
        if is_token and (name not in SEMANTIC_TOKENS or node in LITERAL_NODES):
            continue
        key = "%s::%s" % (node, name)
        if is_token:
            n_tok += 1
        else:
            n_child += 1
        if p in called:
            obs.append(ok(RULE, key, site(f), "consumed by %s" % sorted(short_path(c) for c in called[p])[:2], nontrivial=True))
            continue
        # list children walked through children_between::<T>
        if "AstChildren<" in ret:
            elem = ret[ret.index("AstChildren<") + 12:].rstrip(">")
            if any(g == elem or g.endswith("::" + elem.rsplit("::", 1)[-1]) for g in between):
                obs.append(ok(RULE, key, site(f), "list walked with children_between::<%s> (keeps the trivia between items)" % short_path(elem)))
                continue
        obs.append(bad(RULE, key, site(f), "%s::%s() is never read by the formatter: that %s of the node is dropped from the output%s"
                       % (node, name, "token" if is_token else "child", " (the program changes meaning)" if is_token else "")))
    # trivia lists reach format_comments
    obs.extend(check_trivia(prog))
    # refusal on syntax errors
    f = prog.fn("jrsonnet_formatter::format")
    key = "format:refuses-errors"
    good = False
    if f is not None:
        for u, v, (d, val) in f._cond_edge_list():
            sd = strip(d)
            if sd[0] == "call" and sd[1].endswith("::is_empty") and contains(sd, lambda x: x[0] == "call" and x[1].endswith("jrsonnet_rowan_parser::parse")):
                if val is False:
                    region = {v} | f.reach_from(v)
                    # the error edge must not reach the dprint formatting call
                    fm = [b for b, t in f.calls() if (t.get("fn") or "").startswith("dprint_core::formatting::")]
                    if fm and not (set(fm) & region):
                        good = True
            if sd[0] == "un" and sd[1] == "Not" and val is True and contains(sd, lambda x: x[0] == "call" and x[1].endswith("::is_empty")):
                region = {v} | f.reach_from(v)
                fm = [b for b, t in f.calls() if (t.get("fn") or "").startswith("dprint_core::formatting::")]
                if fm and not (set(fm) & region):
                    good = True
    obs.append(ok(RULE, key, site(f) if f else "", "a non-empty parser error list returns Err before anything is printed") if good else
               bad(RULE, key, site(f) if f else "", "format() does not refuse input whose parse produced errors"))
    floors = [Floor(RULE, "child accessors", n_child, 60), Floor(RULE, "semantic token accessors", n_tok, 3)]
    return obs, floors, {"child_accessors": n_child, "semantic_token_accessors": n_tok, "children_between_types": sorted(short_path(g) for g in between)}


def check_trivia(prog):
    """every `let (children, ending) = children_between::<T>(..)` in a printer keeps both halves: the ending comments
    are bound to a used name (not `_x`) and the children's before_trivia / inline_trivia are read in that printer (or in a
    helper nested in it) and format_comments is called"""
    from .. import hir as H
    obs = []
    C = "jrsonnet_formatter::children::"
    n = 0
    for path, h in sorted(prog.hir.items()):
        if not path.startswith(("jrsonnet_formatter::", "<jrsonnet_")) or "jrsonnet_formatter" not in path:
            continue
        f = prog.fn(path)
        lets = []
        for x in H.nodes(h["body"], "let"):
            init = x[2]
            if init is None:
                continue
            c = H.strip_try(init)
            if H.tag(c) == "call" and (H.def_path(c[1]) or "").startswith(C + "children_between"):
                lets.append((x, c))
        if not lets:
            continue
        # field reads and format_comments calls in this printer and the helpers nested in it
        fields = set()
        fc = 0
        used_locals = set()
        for p2, h2 in prog.hir.items():
            if p2 == path or p2.startswith(path + "::"):
                for y in H.walk(h2["body"]):
                    if H.tag(y) == "field":
                        fields.add(y[2])
                    if H.tag(y) == "path" and y[1][0] == "local":
                        used_locals.add(y[1][1])
                fc += sum(1 for _ in H.calls(h2["body"], path="jrsonnet_formatter::comments::format_comments"))
        for idx, (x, c) in enumerate(lets):
            n += 1
            pat = x[1]
            names = [b[0] for b in H.pat_binds(pat)]
            f_site = site(f, c[3] if len(c) > 3 else None)
            key = "%s:children_between#%d" % (short_path(path), idx + 1)
            problems = []
            if len(names) != 2:
                problems.append("result is not destructured into (children, ending comments)")
            else:
                ch, en = names
                if en.startswith("_") or en not in used_locals:
                    problems.append("the ending comments are bound to `%s` and never printed" % en)
                if not ({"before_trivia", "inline_trivia"} <= fields) or fc == 0:
                    problems.append("the children's before_trivia / inline_trivia are not passed to format_comments")
            if problems:
                obs.append(bad(RULE, key, f_site, "%s: %s -- comments in that position are dropped from the output" % (short_path(path), "; ".join(problems))))
            else:
                obs.append(ok(RULE, key, f_site, "children trivia and ending comments are printed"))
    obs.append(info(RULE, "trivia:sites", "", "%d children_between sites" % n))
    return obs
