"""R-TABLE: operator precedence / token / reserved-word tables of the three parsers agree with each other and
with the Jsonnet specification; operator dispatch names every operator."""
import os
import re

from .. import hir as H
from ..facts import REPO
from ..mir import strip, show, short_path
from ..report import ok, bad, info, site, Floor

RULE = "R-TABLE"

# Jsonnet specification, "Operator precedence" (lowest to highest); all binary operators are left-associative,
# unary operators bind tighter than any binary operator, postfix (call/index/object-apply) tighter still.
SPEC_LEVELS = [["Or"], ["And"], ["BitOr"], ["BitXor"], ["BitAnd"], ["Eq", "Neq"], ["Lt", "Gt", "Lte", "Gte", "In"],
               ["Lhs", "Rhs"], ["Add", "Sub"], ["Mul", "Div", "Mod"]]
SPEC_TOKENS = {"||": "Or", "&&": "And", "|": "BitOr", "^": "BitXor", "&": "BitAnd", "==": "Eq", "!=": "Neq", "<": "Lt", ">": "Gt",
               "<=": "Lte", ">=": "Gte", "<<": "Lhs", ">>": "Rhs", "+": "Add", "-": "Sub", "*": "Mul", "/": "Div", "%": "Mod", "in": "In"}
SPEC_UNARY = {"+": "Plus", "-": "Minus", "!": "Not", "~": "BitNot"}
SPEC_RESERVED = ["assert", "else", "error", "false", "for", "function", "if", "import", "importstr", "importbin", "in", "local", "null",
                 "tailstrict", "then", "self", "super", "true"]
ROWAN_NAMES = {"Modulo": "Mod", "Plus": "Add", "Minus": "Sub", "Le": "Lte", "Ge": "Gte", "InKw": "In", "Ne": "Neq"}
EXTENSIONS = {"NullCoaelse", "MetaObjectApply", "ErrorNoOperator"}


def enum_table(f):
    """variant -> tuple of constants assigned to the return place, for `match self/arg { V => (a, b), ... }`"""
    out = {}
    t = f.term(0)

    def ret_consts(b, seen=None):
        seen = seen or set()
        while b is not None and b not in seen:
            seen.add(b)
            for s in f.stmts(b):
                if s[0] == "a" and s[1] == [0]:
                    rv = s[2]
                    if rv[0] == "agg":
                        return tuple(o[2] if o[0] == "c" else None for o in rv[4])
                    if rv[0] == "use" and rv[1][0] == "c":
                        return (rv[1][2],)
            succ = f.succs[b]
            b = succ[0] if len(succ) == 1 else None
        return None
    if isinstance(t, list) and t[0] == "switch":
        for v, bb, nm in t[2]:
            out[nm if nm is not None else v] = ret_consts(bb)
    else:
        out["*"] = ret_consts(0)
    return out


def check_binary_table(name, table, st, rename=None):
    """table: op -> (l, r).  Compare the induced levels with the specification."""
    obs = []
    rename = rename or {}
    t = {}
    for k, v in table.items():
        k2 = rename.get(k, k)
        if k2 in EXTENSIONS:
            continue
        t[k2] = v
    spec_ops = [o for lvl in SPEC_LEVELS for o in lvl]
    missing = [o for o in spec_ops if o not in t]
    extra = [o for o in t if o not in spec_ops]
    key = "%s:operators" % name
    if missing or extra:
        obs.append(bad(RULE, key, st, "binding-power table of %s lacks %s / has unknown %s" % (name, missing, extra)))
        return obs
    obs.append(ok(RULE, key, st, "all 19 binary operators have a binding power"))
    # same partition into levels and same order
    lv = {}
    for o in spec_ops:
        lv.setdefault(t[o][0], []).append(o)
    got = [sorted(lv[k]) for k in sorted(lv)]
    want = [sorted(l) for l in SPEC_LEVELS]
    key = "%s:levels" % name
    if got == want:
        obs.append(ok(RULE, key, st, "10 precedence levels in the specified order"))
    else:
        diffs = []
        for o in spec_ops:
            si = next(i for i, l in enumerate(SPEC_LEVELS) if o in l)
            gi = next(i for i, l in enumerate(got) if o in l)
            if si != gi or sorted(SPEC_LEVELS[si]) != got[gi] if gi < len(got) else True:
                diffs.append(o)
        obs.append(bad(RULE, key, st, "precedence levels of %s differ from the Jsonnet grammar for %s: got %s" % (name, sorted(set(diffs)), got)))
    # left associativity: right power > left power
    nonleft = [o for o in spec_ops if not (t[o][1] is not None and t[o][0] is not None and t[o][1] > t[o][0])]
    key = "%s:associativity" % name
    obs.append(ok(RULE, key, st, "every binary operator is left-associative (right power > left power)") if not nonleft else
               bad(RULE, key, st, "%s are not left-associative in %s" % (nonleft, name)))
    return obs


def peg_block():
    p = os.path.join(REPO, "crates/jrsonnet-peg-parser/src/lib.rs")
    try:
        src = open(p).read()
    except OSError:
        return None
    i = src.find("precedence!")
    if i < 0:
        return None
    j = src.find("{", i)
    depth = 0
    k = j
    while k < len(src):
        if src[k] == "{":
            depth += 1
        elif src[k] == "}":
            depth -= 1
            if depth == 0:
                break
        k += 1
    return src[j + 1:k]


def parse_peg(block):
    levels = [[]]
    unary = []
    unary_level = None
    for line in block.splitlines():
        s = line.strip()
        if s == "--":
            levels.append([])
            continue
        m = re.search(r'binop\(<(?:"([^"]+)"|keyword\("([^"]+)"\))>\).*expr_bin!\(a (\w+) b\)', s)
        if m:
            tok = m.group(1) or m.group(2)
            left = s.startswith("a:(@)") and " b:@" in s
            right = s.startswith("a:@") and "b:(@)" in s
            levels[-1].append((tok, m.group(3), "left" if left else ("right" if right else "?")))
            continue
        m = re.search(r'unaryop\(<"([^"]+)">\).*expr_un!\((\w+) b\)', s)
        if m:
            unary.append((m.group(1), m.group(2)))
            unary_level = len(levels) - 1
            levels[-1].append(("unary", m.group(2), "prefix"))
    return levels, unary, unary_level


def run(prog, which=("ir", "peg", "rowan")):
    obs = []
    tables = 0
    # ---- ir-parser (default parser)
    if "ir" in which:
        f = prog.fn("jrsonnet_ir_parser::infix_binding_power")
        g = prog.fn("jrsonnet_ir_parser::prefix_binding_power")
        if f is None or g is None:
            obs.append(bad(RULE, "ir-parser:anchor", "", "infix_binding_power / prefix_binding_power not found"))
        else:
            tables += 1
            bt = enum_table(f)
            obs.extend(check_binary_table("ir-parser", bt, site(f)))
            ut = enum_table(g)
            powers = {v[0] for v in ut.values() if v}
            maxl = max(v[0] for k, v in bt.items() if v and k not in EXTENSIONS)
            key = "ir-parser:unary-tighter"
            if powers and min(powers) > maxl:
                obs.append(ok(RULE, key, site(g), "prefix power %s > every binary left power (max %s)" % (sorted(powers), maxl)))
            else:
                obs.append(bad(RULE, key, site(g), "unary operators bind with power %s, which does not exceed the left power %s of `*`: "
                               "`-a * b` parses as -(a * b) and `~1 * 2` evaluates to -3 instead of -4" % (sorted(powers), maxl)))
            obs.extend(check_token_maps(prog))
    # ---- rowan parser (formatter)
    if "rowan" in which:
        f = prog.fn("jrsonnet_rowan_parser::precedence::<impl jrsonnet_rowan_parser::generated::nodes::BinaryOperatorKind>::binding_power")
        g = prog.fn("jrsonnet_rowan_parser::precedence::<impl jrsonnet_rowan_parser::generated::nodes::UnaryOperatorKind>::binding_power")
        if f is None or g is None:
            cands = [p for p in prog.fns if "binding_power" in p]
            obs.append(bad(RULE, "rowan:anchor", "", "rowan binding_power functions not found (%s)" % cands[:4]))
        else:
            tables += 1
            bt = enum_table(f)
            obs.extend(check_binary_table("rowan", bt, site(f), ROWAN_NAMES))
            ut = enum_table(g)
            powers = {v[-1] for v in ut.values() if v}
            maxl = max(v[0] for k, v in bt.items() if v and ROWAN_NAMES.get(k, k) not in EXTENSIONS)
            key = "rowan:unary-tighter"
            if powers and min(powers) > maxl:
                obs.append(ok(RULE, key, site(g), "prefix power %s > every binary left power" % sorted(powers)))
            else:
                obs.append(bad(RULE, key, site(g), "rowan: unary operators bind with power %s <= left power %s of `*` (the formatter's tree for `-a * b` "
                               "differs from the grammar)" % (sorted(powers), maxl)))
            # unary operator set
            uk = None
            for unit, a in prog.adts():
                if a["path"].endswith("nodes::UnaryOperatorKind"):
                    uk = [v["name"] for v in a["variants"]]
            key = "rowan:unary-set"
            want = {"Plus", "Minus", "Not", "BitNot"}
            if uk is not None and want <= set(uk):
                obs.append(ok(RULE, key, site(g), "unary operators %s" % sorted(uk)))
            else:
                obs.append(bad(RULE, key, site(g), "the syntax-tree parser has unary operators %s; the grammar has %s (unary `+` is rejected by the formatter)" % (sorted(uk or []), sorted(want))))
    # ---- PEG (legacy parser)
    if "peg" in which:
        blk = peg_block()
        stp = "crates/jrsonnet-peg-parser/src/lib.rs"
        if blk is None:
            obs.append(bad(RULE, "peg:anchor", stp, "precedence!{} block not found"))
        else:
            tables += 1
            levels, unary, ulevel = parse_peg(blk)
            bin_levels = [[(t, n, a) for (t, n, a) in l if a in ("left", "right", "?") and n not in EXTENSIONS] for l in levels]
            bin_levels = [l for l in bin_levels if l]
            got = [sorted(n for t, n, a in l) for l in bin_levels]
            want = [sorted(l) for l in SPEC_LEVELS]
            obs.append(ok(RULE, "peg:levels", stp, "10 precedence levels in the specified order") if got == want else
                       bad(RULE, "peg:levels", stp, "PEG precedence levels differ from the grammar: %s" % got))
            # one obligation per operator, so that a recorded finding for one operator cannot hide another
            for l in bin_levels:
                for t, n, a in l:
                    key = "peg:associativity:%s" % n
                    obs.append(ok(RULE, key, stp, "`%s` is left-associative" % t) if a == "left" else
                               bad(RULE, key, stp, "PEG grammar: `%s` (%s) is not left-associative: `a %s b %s c` groups to the right, the default parser groups to the left" % (t, n, t, t)))
            badtok = [(t, n) for l in bin_levels for t, n, a in l if SPEC_TOKENS.get(t) != n]
            obs.append(ok(RULE, "peg:tokens", stp, "19 operator tokens map to their operators") if not badtok and sum(len(l) for l in bin_levels) == 19 else
                       bad(RULE, "peg:tokens", stp, "PEG token/operator pairs differ from the grammar: %s" % badtok))
            un_ok = dict(unary) == SPEC_UNARY and ulevel is not None and ulevel > max(i for i, l in enumerate(levels) if any(a in ("left", "right") for t, n, a in l))
            obs.append(ok(RULE, "peg:unary", stp, "4 unary operators on their own level above every binary level") if un_ok else
                       bad(RULE, "peg:unary", stp, "PEG unary operators %s are not all on a level above the binary operators" % unary))
    obs.extend(check_reserved(prog, which))
    floors = [Floor(RULE, "precedence tables", tables, len(which))]
    return obs, floors, {"precedence_tables": tables}


def check_token_maps(prog):
    """binary_op / unary_op of the default parser: token kind -> operator, a bijection that matches the grammar"""
    obs = []
    # SyntaxKind -> token text, from the generated Display table of the lexer
    text = {}
    for path, h in prog.hir.items():
        if path.startswith("jrsonnet_lexer::") and ("SyntaxKind" in path):
            for m in H.matches(h["body"]):
                for arm in m[2]:
                    vs = H.pat_variants_deep(arm[0])
                    v = H.lit_value(arm[2])
                    if isinstance(v, str) and len(vs) == 1 and v.startswith("'") and v.endswith("'"):
                        text[vs[0].rsplit("::", 1)[1]] = v[1:-1]
    for fname, spec, enum in (("binary_op", SPEC_TOKENS, "BinaryOpType"), ("unary_op", SPEC_UNARY, "UnaryOpType")):
        h = prog.hir.get("jrsonnet_ir_parser::" + fname)
        f = prog.fn("jrsonnet_ir_parser::" + fname)
        key = "ir-parser:%s" % fname
        if h is None:
            obs.append(bad(RULE, key, "", "%s not found" % fname))
            continue
        got = {}
        for m in H.matches(h["body"]):
            for arm in m[2]:
                vs = H.pat_variants_deep(arm[0])
                ops = [d for d in (H.def_path(x) for x in H.walk(arm[2]) if H.tag(x) == "path") if d and ("::%s::" % enum) in d]
                if len(vs) == 1 and len(ops) == 1:
                    got[vs[0].rsplit("::", 1)[1]] = ops[0].rsplit("::", 1)[1]
        if not text:
            obs.append(bad(RULE, key, site(f), "lexer token text table not found"))
            continue
        pairs = {text.get(k, k): v for k, v in got.items()}
        pairs = {k: v for k, v in pairs.items() if v not in EXTENSIONS}
        if pairs == spec:
            obs.append(ok(RULE, key, site(f), "%d tokens map one-to-one onto %s as the grammar defines" % (len(pairs), enum)))
        else:
            d = {k: (pairs.get(k), spec.get(k)) for k in set(pairs) | set(spec) if pairs.get(k) != spec.get(k)}
            obs.append(bad(RULE, key, site(f), "token -> operator map differs from the grammar: %s (got, expected)" % d))
    return obs


def check_reserved(prog, which):
    obs = []
    want = sorted(SPEC_RESERVED)
    if "ir" in which:
        h = prog.hir.get("jrsonnet_ir_parser::is_reserved")
        f = prog.fn("jrsonnet_ir_parser::is_reserved")
        words = []
        if h:
            for x in H.walk(h["body"]):
                if H.tag(x) == "lit" and x[1] == "str":
                    words.append(x[2])
        key = "ir-parser:reserved"
        obs.append(ok(RULE, key, site(f), "18 reserved words") if sorted(words) == want else
                   bad(RULE, key, site(f) if f else "", "is_reserved differs from the grammar: missing %s, extra %s" % (sorted(set(want) - set(words)), sorted(set(words) - set(want)))))
        # lexer keywords (the generated *_KW tokens)
        kws = []
        for path, h in prog.hir.items():
            if path.startswith("jrsonnet_lexer::") and "SyntaxKind" in path:
                for m in H.matches(h["body"]):
                    for arm in m[2]:
                        vs = H.pat_variants_deep(arm[0])
                        v = H.lit_value(arm[2])
                        if isinstance(v, str) and len(vs) == 1 and vs[0].endswith("_KW"):
                            kws.append(v.strip("'"))
        kws = sorted(set(kws))
        key = "lexer:keywords"
        if kws:
            obs.append(ok(RULE, key, "", "lexer keyword tokens = the 18 reserved words") if kws == want else
                       bad(RULE, key, "", "lexer keyword tokens differ from the reserved words: missing %s, extra %s" % (sorted(set(want) - set(kws)), sorted(set(kws) - set(want)))))
    if "peg" in which:
        p = os.path.join(REPO, "crates/jrsonnet-peg-parser/src/lib.rs")
        words = []
        try:
            for line in open(p):
                if "rule reserved()" in line:
                    words = re.findall(r'"([a-z]+)"', line)
        except OSError:
            pass
        key = "peg:reserved"
        obs.append(ok(RULE, key, "crates/jrsonnet-peg-parser/src/lib.rs", "18 reserved words") if sorted(words) == want else
                   bad(RULE, key, "crates/jrsonnet-peg-parser/src/lib.rs", "PEG reserved() differs from the grammar: missing %s, extra %s" % (sorted(set(want) - set(words)), sorted(set(words) - set(want)))))
    return obs
