"""R-STRICT: nothing in a lazy position is evaluated eagerly (HIR of the evaluator)."""
from .. import hir as H
from ..mir import short_path
from ..report import ok, bad, info, site, Floor

RULE = "R-STRICT"
EV = "jrsonnet_evaluator::evaluate::"
MEMO_NEW = "jrsonnet_evaluator::val::MemoizedClosureThunk::<D, T>::new"
EVAL_FAMILY = {
    EV + "evaluate": "evaluate", EV + "evaluate_named": "evaluate_named", EV + "evaluate_named_param": "evaluate_named_param",
    EV + "evaluate_assert": "evaluate_assert", EV + "evaluate_apply": "evaluate_apply", EV + "evaluate_object": "evaluate_object",
    EV + "evaluate_comp": "evaluate_comp", EV + "operator::evaluate_binary_op_special": "evaluate_binary_op_special",
    EV + "evaluate_member_list_object": "evaluate_member_list_object", EV + "evaluate_field_name": "evaluate_field_name",
    "jrsonnet_evaluator::val::Thunk::<T>::evaluate": "Thunk::evaluate", "jrsonnet_evaluator::val::Thunk::<T>::force": "Thunk::force",
}
FORCING = ("evaluate", "evaluate_named", "evaluate_named_param", "Thunk::evaluate", "Thunk::force")


def eager_calls(n, out=None):
    """evaluate-family calls reachable in n without entering a lazy closure (the closure handed to
    MemoizedClosureThunk::new, i.e. what `Thunk!` expands to).  Closures handed to anything else run immediately."""
    if out is None:
        out = []
    if not isinstance(n, list):
        return out
    t = H.tag(n)
    if t in ("call", "mcall"):
        c = H.callee(n)
        if c == MEMO_NEW:
            # env tuple is evaluated eagerly, the closure body is lazy
            args = H.call_args(n)
            if args:
                eager_calls(args[0], out)
            return out
        if c in EVAL_FAMILY:
            out.append((EVAL_FAMILY[c], n))
    for x in n:
        if isinstance(x, list):
            eager_calls(x, out)
    return out


def arm_variants(arm):
    return [v.rsplit("::", 1)[1] for v in H.pat_variants(arm[0]) if "::Expr::" in v]


def first_arg_source(call):
    """name of the pattern binding / field the evaluated expression comes from"""
    args = H.call_args(call)
    if len(args) < 2:
        return None
    e = args[1]
    return expr_source(e)


def expr_source(e):
    e = H.strip_try(e)
    t = H.tag(e)
    if t == "addr":
        return expr_source(e[1])
    if t == "unary" and e[1] == "*":
        return expr_source(e[2])
    if t == "path" and e[1][0] == "local":
        return e[1][1]
    if t == "field":
        b = expr_source(e[1])
        return "%s.%s" % (b, e[2]) if b else None
    if t == "mcall" and e[1].endswith(("::deref", "::as_ref", "::clone")):
        return expr_source(e[2])
    return None


def run(prog):
    obs = []
    h = prog.hir.get(EV + "evaluate")
    f = prog.fn(EV + "evaluate")
    if h is None:
        return [bad(RULE, "evaluate:anchor", "", "evaluate() not found")], [], {}
    st = site(f)
    top = None
    for m in H.matches(h["body"]):
        if m[5] and "jrsonnet_ir::expr::Expr" in m[5]:
            top = m
            break
    if top is None:
        return [bad(RULE, "evaluate:match", st, "no top-level match on Expr found in evaluate()")], [], {}
    arms = {}
    wild = False
    for arm in top[2]:
        vs = arm_variants(arm)
        if not vs and H.pat_is_wild(arm[0]):
            wild = True
        for v in vs:
            arms.setdefault(v, []).append(arm)
    # floor: every Expr variant has its own arm
    expr_adt = None
    for unit, a in prog.adts():
        if a["path"] == "jrsonnet_ir::expr::Expr":
            expr_adt = a
    all_variants = [v["name"] for v in expr_adt["variants"]] if expr_adt else []
    missing = [v for v in all_variants if v not in arms]
    if missing or wild:
        obs.append(bad(RULE, "evaluate:exhaustive", st, "Expr variants without a dedicated arm in evaluate(): %s%s" % (missing, " (wildcard arm present)" if wild else "")))
    else:
        obs.append(ok(RULE, "evaluate:exhaustive", st, "all %d Expr variants have a dedicated arm, no wildcard" % len(all_variants)))

    def eager(v):
        out = []
        for arm in arms.get(v, []):
            out.extend(eager_calls(arm[2]))
            if arm[1] is not None:
                out.extend(eager_calls(arm[1]))
        return out

    # lazy constructors: no forcing call at all
    for v in ("Arr", "Function"):
        calls = [c for c in eager(v) if c[0] in FORCING]
        key = "evaluate:%s" % v
        if v not in arms:
            continue
        if calls:
            obs.append(bad(RULE, key, st, "the %s arm evaluates %s eagerly; elements/bodies must stay lazy" % (v, [first_arg_source(c[1]) for c in calls])))
        else:
            obs.append(ok(RULE, key, st, "no eager evaluation in the %s arm" % v))
    # ArrComp: element expression only inside the memoising closure
    if "ArrComp" in arms:
        names = [c[0] for c in eager("ArrComp")]
        forcing = [c for c in eager("ArrComp") if c[0] in FORCING]
        key = "evaluate:ArrComp"
        if forcing or names.count("evaluate_comp") != 1:
            obs.append(bad(RULE, key, st, "comprehension element is evaluated eagerly (%s) or evaluate_comp is not called exactly once" % [first_arg_source(c[1]) for c in forcing]))
        else:
            obs.append(ok(RULE, key, st, "the element expression is evaluated only inside Thunk!; specs go through evaluate_comp"))
    # LocalExpr: only the body
    if "LocalExpr" in arms:
        arm = arms["LocalExpr"][0]
        binds = [b[0] for b in H.pat_binds(arm[0])]
        forcing = [c for c in eager("LocalExpr") if c[0] in FORCING]
        srcs = [first_arg_source(c[1]) for c in forcing]
        key = "evaluate:LocalExpr"
        body_name = binds[1] if len(binds) > 1 else None
        if len(forcing) == 1 and srcs[0] == body_name:
            obs.append(ok(RULE, key, st, "only the body `%s` is evaluated; bindings go through evaluate_dest (lazy)" % body_name))
        else:
            obs.append(bad(RULE, key, st, "LocalExpr evaluates %s eagerly (expected only the body %s)" % (srcs, body_name)))
    # IfElse: branches under opposite edges of the condition
    if "IfElse" in arms:
        arm = arms["IfElse"][0]
        key = "evaluate:IfElse"
        good = False
        why = "no `if` on the evaluated condition found"
        for n in H.nodes(arm[2], "if"):
            cond_calls = [first_arg_source(c[1]) for c in eager_calls(n[1]) if c[0] in FORCING]
            then_calls = [first_arg_source(c[1]) for c in eager_calls(n[2]) if c[0] in FORCING]
            else_calls = [first_arg_source(c[1]) for c in eager_calls(n[3]) if c[0] in FORCING] if n[3] else []
            if any(s and s.endswith("cond.cond") for s in cond_calls):
                if any(s and "cond_then" in s for s in then_calls) and not any(s and "cond_then" in s for s in else_calls + cond_calls) \
                        and not any(s and "cond_else" in s or s == "v" for s in then_calls + cond_calls):
                    good = True
                else:
                    why = "then/else are not evaluated under opposite edges: cond=%s then=%s else=%s" % (cond_calls, then_calls, else_calls)
        # nothing evaluated outside that if
        obs.append(ok(RULE, key, st, "condition first; then-branch and else-branch evaluated only under their own edge") if good else bad(RULE, key, st, why))
    # Apply: callee/args only through evaluate_apply
    for v, allowed in (("Apply", {"evaluate_apply"}), ("Obj", {"evaluate_object"})):
        if v in arms:
            names = {c[0] for c in eager(v)}
            key = "evaluate:%s" % v
            if names <= allowed and names:
                obs.append(ok(RULE, key, st, "%s delegates to %s only" % (v, sorted(allowed))))
            else:
                obs.append(bad(RULE, key, st, "%s arm eagerly calls %s (expected only %s)" % (v, sorted(names), sorted(allowed))))
    obs.extend(check_helpers(prog))
    obs.extend(check_eval_arg(prog))
    obs.extend(check_short_circuit(prog))
    floors = [Floor(RULE, "obligations", len(obs), 10)]
    return obs, floors, {"expr_variants": len(all_variants)}


HELPERS_NO_FORCE = [
    (EV + "destructure::evaluate_dest", "local bindings"),
    (EV + "destructure::destruct", "destructuring"),
    ("jrsonnet_evaluator::function::parse::parse_function_call", "argument binding (arguments go through eval_arg; defaults lazy)"),
    ("jrsonnet_evaluator::function::parse::parse_default_function_call", "default parameters"),
    ("jrsonnet_evaluator::function::prepared::parse_prepared_function_call", "prepared calls"),
    (EV + "evaluate_member_list_object", "object fields, locals and asserts"),
    (EV + "evaluate_object_locals", "object locals"),
]


def check_helpers(prog):
    obs = []
    for path, what in HELPERS_NO_FORCE:
        h = prog.hir.get(path)
        f = prog.fn(path)
        key = "%s:lazy" % short_path(path)
        if h is None:
            obs.append(info(RULE, key, "", "%s not present in this configuration" % path))
            continue
        forcing = [c for c in eager_calls(h["body"]) if c[0] in FORCING]
        if forcing:
            obs.append(bad(RULE, key, site(f), "%s forces %s outside a Thunk! closure (%s must stay lazy)"
                           % (short_path(path), [first_arg_source(c[1]) or c[0] for c in forcing], what)))
        else:
            obs.append(ok(RULE, key, site(f), "no evaluation outside Thunk! closures (%s)" % what))
    # evaluate_field_member: only the (dynamic) field name may be evaluated
    path = EV + "evaluate_field_member"
    h = prog.hir.get(path)
    f = prog.fn(path)
    key = "evaluate_field_member:lazy"
    if h is not None:
        calls = eager_calls(h["body"])
        names = [c[0] for c in calls]
        if [n for n in names if n != "evaluate_field_name"]:
            obs.append(bad(RULE, key, site(f), "field values are evaluated while the object is built: %s" % names))
        else:
            obs.append(ok(RULE, key, site(f), "only the field name is evaluated while the object is built"))
    return obs


def check_eval_arg(prog):
    path = "jrsonnet_evaluator::function::parse::eval_arg"
    h = prog.hir.get(path)
    f = prog.fn(path)
    key = "eval_arg:tailstrict"
    if h is None:
        return [bad(RULE, key, "", "eval_arg not found")]
    # the flag is eval_arg's bool parameter (called `tailstrict` today)
    ti = f.param(name="tailstrict", ty="bool") if f is not None else None
    tname = f.arg_names[ti - 1] if ti and ti - 1 < len(f.arg_names) else "tailstrict"
    for n in H.nodes(h["body"], "if"):
        if H.local_name(n[1]) == tname:
            then_f = [c for c in eager_calls(n[2]) if c[0] in FORCING]
            else_f = [c for c in eager_calls(n[3]) if c[0] in FORCING] if n[3] else []
            outside = [c for c in eager_calls(h["body"]) if c[0] in FORCING]
            if then_f and not else_f and len(outside) == len(then_f):
                return [ok(RULE, key, site(f), "arguments are forced only under `if tailstrict`; otherwise wrapped in Thunk!")]
            return [bad(RULE, key, site(f), "an argument is evaluated eagerly outside the tailstrict branch")]
    return [bad(RULE, key, site(f), "no `if tailstrict` found in eval_arg")]


def check_short_circuit(prog):
    """`a && b` / `a || b`: the right operand is only evaluated in the fall-through arm"""
    path = EV + "operator::evaluate_binary_op_special"
    h = prog.hir.get(path)
    f = prog.fn(path)
    key = "evaluate_binary_op_special:short-circuit"
    if h is None:
        return [bad(RULE, key, "", "evaluate_binary_op_special not found")]
    for m in H.matches(h["body"]):
        if H.tag(m[1]) != "tup":
            continue
        problems = []
        seen = set()
        for arm in m[2]:
            p = arm[0]
            if H.tag(p) != "tup" or len(p[1]) != 3:
                continue
            ops = [v.rsplit("::", 1)[1] for v in H.pat_variants(p[1][1])]
            lhs = H.pat_variants(p[1][0])
            for op in ops:
                seen.add(op)
                if op in ("And", "Or"):
                    forcing = [c for c in eager_calls(arm[2]) if c[0] in FORCING]
                    if forcing:
                        problems.append("the short-circuit arm for %s evaluates its right operand" % op)
        # scrutinee evaluates only the left operand
        sc = [first_arg_source(c[1]) for c in eager_calls(m[1]) if c[0] in FORCING]
        if sc != ["a"]:
            problems.append("the match scrutinee evaluates %s (expected only the left operand)" % sc)
        if not {"And", "Or"} <= seen:
            problems.append("no dedicated arms for And/Or")
        if problems:
            return [bad(RULE, key, site(f), "; ".join(problems))]
        return [ok(RULE, key, site(f), "only the left operand is evaluated before dispatch; And/Or short-circuit arms do not touch the right operand")]
    return [bad(RULE, key, site(f), "dispatch match not found")]
