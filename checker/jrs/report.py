"""Obligations, known findings, floors, evidence and exit codes."""
import hashlib
import json
import os
import re
import sys
import time

VERIF = os.path.dirname(os.path.dirname(os.path.dirname(os.path.abspath(__file__))))
KNOWN = os.path.join(VERIF, "known_findings.json")


class Ob:
    """One obligation.  status: 'ok' (discharged by rule), 'open' (violation candidate),
    'info' (inventoried, never an alarm)."""

    __slots__ = ("rule", "key", "status", "site", "why", "detail", "nontrivial")

    def __init__(self, rule, key, status, site="", why="", detail=None, nontrivial=True):
        self.rule = rule
        self.key = "%s:%s" % (rule, key)
        self.status = status
        self.site = site
        self.why = why
        self.detail = detail
        self.nontrivial = nontrivial

    def as_json(self):
        d = {"rule": self.rule, "key": self.key, "status": self.status, "site": self.site, "why": self.why}
        if self.detail is not None:
            d["detail"] = self.detail
        return d


def ok(rule, key, site="", why="", detail=None, nontrivial=True):
    return Ob(rule, key, "ok", site, why, detail, nontrivial)


def bad(rule, key, site="", why="", detail=None):
    return Ob(rule, key, "open", site, why, detail, True)


def info(rule, key, site="", why="", detail=None):
    return Ob(rule, key, "info", site, why, detail, False)


class Floor:
    def __init__(self, rule, name, got, want):
        self.rule, self.name, self.got, self.want = rule, name, got, want


def site(fn, line=None):
    if fn is None:
        return ""
    return "%s:%s in %s" % (fn.file, line if line is not None else fn.line, fn.path)


def load_known():
    if not os.path.exists(KNOWN):
        return {"findings": [], "fixed": []}
    with open(KNOWN) as fh:
        return json.load(fh)


def finish(prop, tier, t0, obs, floors, meta, only=None, cfgs=("default",)):
    """Apply floors + known findings, print the verdict lines, write evidence, return exit code."""
    known = load_known()
    kmap = {}
    for f in known.get("findings", []):
        if f["property"] == prop:
            kmap[f["key"]] = f
    viol_dir = os.path.join(VERIF, "out", "violations", prop)
    os.makedirs(viol_dir, exist_ok=True)
    violations = []
    known_hit = []
    seen_keys = set()
    dups = []
    for o in obs:
        if o.key in seen_keys:
            dups.append(o.key)
        seen_keys.add(o.key)
    for o in obs:
        if o.status != "open":
            continue
        if only is not None and o.key != only:
            continue
        if o.key in kmap:
            known_hit.append(o)
        else:
            violations.append(o)
    for fl in floors:
        if fl.got < fl.want:
            violations.append(bad(fl.rule, "floor:" + fl.name, "",
                                  "anchor lost: rule %s matched %d instance(s) of '%s', expected at least %d "
                                  "(confirmed by hand on the reference tree); failing closed"
                                  % (fl.rule, fl.got, fl.name, fl.want)))
    printed = set()
    for o in known_hit:
        if o.key in printed:
            continue
        printed.add(o.key)
        print("KNOWN-FINDING: property=%s %s -- %s" % (prop, o.key, kmap[o.key].get("what", o.why)))
    for o in violations:
        if o.key in printed:
            continue
        printed.add(o.key)
        fname = re.sub(r"[^A-Za-z0-9_.-]+", "_", o.key)[:120] + "-" + hashlib.sha1(o.key.encode()).hexdigest()[:8] + ".json"
        path = os.path.join(viol_dir, fname)
        with open(path, "w") as fh:
            json.dump({"property": prop, "obligation": o.as_json()}, fh, indent=1)
        print("VIOLATION property=%s replay=%s" % (prop, path))
        print("  rule=%s key=%s" % (o.rule, o.key))
        if o.site:
            print("  at %s" % o.site)
        print("  %s" % o.why)
    stale = [k for k in kmap if k not in seen_keys and only is None]
    for k in stale:
        # a listed finding that no longer appears: not an alarm, but say so
        print("note: known finding %s not reported by this run (fixed or code moved)" % k, file=sys.stderr)

    n_ok = sum(1 for o in obs if o.status == "ok")
    n_open = sum(1 for o in obs if o.status == "open")
    n_info = sum(1 for o in obs if o.status == "info")
    obligations = n_ok + n_open
    distinct_nontrivial = len({(o.rule, o.key) for o in obs if o.status != "info" and o.nontrivial})
    by_rule = {}
    for o in obs:
        r = by_rule.setdefault(o.rule, {"ok": 0, "open": 0, "info": 0})
        r[o.status] += 1
    samples = []
    seen_rules = {}
    for o in obs:
        if o.status == "info":
            continue
        c = seen_rules.get(o.rule, 0)
        if c < 3:
            seen_rules[o.rule] = c + 1
            samples.append(o.as_json())
    samples = samples[:40]
    level = meta.get("level", "other")
    cov = {
        "explanation": meta["explanation"],
        "rule": meta.get("rule", ""),
        "rules_applied": sorted(set(meta.get("rules", [])) | set(by_rule)),
        "evaluations": obligations,
        "distinct_nontrivial": distinct_nontrivial,
        "obligations": obligations,
        "discharged": n_ok,
        "open_known_findings": len({o.key for o in known_hit}),
        "open_unlisted": len({o.key for o in violations}),
        "inventoried_not_decided": n_info,
        "by_rule": by_rule,
        "floors": [{"rule": f.rule, "instances": f.name, "found": f.got, "required": f.want} for f in floors],
        "configurations": list(cfgs),
        "analysed": meta.get("analysed", {}),
        "samples": samples,
        "checker_cmd": "python3 checker/verif.py check %s --tier %s" % (prop, tier),
        "trusted_base": meta.get("trusted_base", []),
        "decided": meta.get("decided", ""),
        "not_decided": meta.get("not_decided", ""),
        "exhaustive": True,
    }
    if level == "proof" and (n_ok != obligations):
        level = "other"
    ev = {
        "property_id": prop,
        "tier": tier,
        "seed": int(os.environ.get("VERIF_SEED", "0") or 0),
        "level": level,
        "coverage": cov,
        "assumptions": meta.get("assumptions", []),
        "wall_s": round(time.time() - t0, 2),
        "violations": len({o.key for o in violations}),
    }
    if only is None:
        os.makedirs(os.path.join(VERIF, "evidence"), exist_ok=True)
        tmp = os.path.join(VERIF, "evidence", "%s.json.tmp%d" % (prop, os.getpid()))
        with open(tmp, "w") as fh:
            json.dump(ev, fh, indent=1)
        os.replace(tmp, os.path.join(VERIF, "evidence", "%s.json" % prop))
    print("%s: %d obligations, %d discharged, %d known finding(s), %d violation(s), %d inventoried; %.1fs"
          % (prop, obligations, n_ok, len({o.key for o in known_hit}), len({o.key for o in violations}), n_info,
             time.time() - t0))
    return 1 if violations else 0
