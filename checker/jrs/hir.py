"""Helpers over the driver's HIR trees (nested lists, tag first)."""


def walk(n):
    if isinstance(n, list):
        yield n
        for x in n:
            if isinstance(x, list):
                yield from walk(x)


def tag(n):
    return n[0] if isinstance(n, list) and n and isinstance(n[0], str) else None


def nodes(n, t):
    for x in walk(n):
        if tag(x) == t:
            yield x


def strip_try(n):
    """`expr?` desugars to match Try::branch(expr) {...}; return expr"""
    while True:
        if tag(n) == "match" and tag(n[1]) == "call" and is_path(n[1][1], "core::ops::try_trait::Try::branch"):
            n = n[1][2][0]
            continue
        if tag(n) == "block" and not n[1] and n[2] is not None:
            n = n[2]
            continue
        if tag(n) in ("addr",):
            n = n[1]
            continue
        return n


def is_path(n, path):
    return tag(n) == "path" and n[1][0] == "def" and n[1][2] == path


def def_path(n):
    """path of a `path` node resolving to a definition, else None"""
    if tag(n) == "path" and n[1][0] in ("def", "selfctor"):
        return n[1][-1]
    return None


def local_name(n):
    n = strip_try(n)
    while tag(n) in ("addr", "unary") and (tag(n) == "addr" or n[1] == "*"):
        n = n[1] if tag(n) == "addr" else n[2]
    if tag(n) == "path" and n[1][0] == "local":
        return n[1][1]
    return None


def callee(n):
    """callee path of a call / method call node"""
    if tag(n) == "mcall":
        return n[1]
    if tag(n) == "call":
        return def_path(n[1])
    return None


def call_args(n):
    if tag(n) == "mcall":
        return [n[2]] + n[3]
    if tag(n) == "call":
        return n[2]
    return []


def calls(n, path=None, suffix=None):
    for x in walk(n):
        c = callee(x)
        if c is None:
            continue
        if path is not None and c != path:
            continue
        if suffix is not None and not c.endswith(suffix):
            continue
        yield x


def pat_variants(p):
    """variant / const paths mentioned by a pattern (through or/ref/tuple positions)"""
    out = []
    t = tag(p)
    if t in ("path",):
        d = def_path(p)
        if d:
            out.append(d)
    elif t in ("ts", "struct"):
        if p[1][0] in ("def", "selfctor"):
            out.append(p[1][-1])
    elif t == "or":
        for x in p[1]:
            out.extend(pat_variants(x))
    elif t == "ref":
        out.extend(pat_variants(p[1]))
    elif t == "bind" and p[3] is not None:
        out.extend(pat_variants(p[3]))
    return out


def pat_is_wild(p):
    t = tag(p)
    if t == "wild":
        return True
    if t == "bind" and p[3] is None:
        return True
    if t == "ref":
        return pat_is_wild(p[1])
    return False


def pat_binds(p):
    """(name, type) of every binding in a pattern"""
    out = []
    for x in walk(p):
        if tag(x) == "bind":
            out.append((x[1], x[2]))
    return out


def matches(n):
    for x in walk(n):
        if tag(x) == "match" and x[3] in ("Normal", "Postfix"):
            yield x


def lit_value(n):
    if tag(n) == "lit":
        return n[2] if len(n) > 2 else None
    if tag(n) == "unary" and n[1] == "-" and tag(n[2]) == "lit":
        return -n[2][2] if isinstance(n[2][2], (int, float)) else "-" + str(n[2][2])
    return None


def expr_source_name(e):
    """local a (possibly cloned / referenced) expression comes from"""
    e = strip_try(e)
    t = tag(e)
    if t == "addr":
        return expr_source_name(e[1])
    if t == "unary" and e[1] == "*":
        return expr_source_name(e[2])
    if t == "path" and e[1][0] == "local":
        return e[1][1]
    if t == "mcall" and e[1].endswith(("::clone", "::deref", "::as_ref")):
        return expr_source_name(e[2])
    if t == "call" and len(e[2]) == 1 and (def_path(e[1]) or "").endswith("::clone"):
        return expr_source_name(e[2][0])
    return None


def for_loops(n):
    """(iter_expr, pattern, body) of every `for pat in iter { body }` under n (HIR desugaring)"""
    for x in walk(n):
        if tag(x) == "match" and x[3] == "ForLoopDesugar":
            it = x[1]
            if tag(it) == "call" and it[2]:
                it = it[2][0]
            try:
                loop = x[2][0][2]
                blk = loop[2]
                inner = blk[1][0] if blk[1] else blk[2]
                some = [a for a in inner[2] if pat_variants(a[0]) and pat_variants(a[0])[0].endswith("::Some")]
                pat = some[0][0][2][0] if tag(some[0][0]) == "ts" else some[0][0]
                body = some[0][2]
                yield it, pat, body
            except Exception:
                continue


def pat_variants_deep(p):
    """all variant/const paths anywhere inside a pattern"""
    out = []
    for x in walk(p):
        t = tag(x)
        if t == "path":
            d = def_path(x)
            if d:
                out.append(d)
        elif t in ("ts", "struct") and x[1][0] in ("def", "selfctor"):
            out.append(x[1][-1])
    return out
