"""Property -> rules.  Each entry: run(prog, tier) -> (obligations, floors, meta)."""
from .rules import bounds, arith, index, numctor, cmp, jsonw, memo, strict, lookup, tls, imports, hashord, capi, tables, ops, registry, printf, recur, trace, fmtcover, fmttables, units, fmttokens, casts, charb, argswap

COMMON_TRUST = [
    "rustc nightly HIR/MIR construction, trait resolution and const evaluation",
    "nightly build == pinned 1.93 build for the analysed crates, except cfg(nightly) in stack.rs",
    "bounded backward slice: an 'unknown' descriptor never discharges an obligation",
    "dependencies (gcmodule, logos, peg, rowan, dprint, serde, digest crates) are not analysed",
]


def c08(prog, tier):
    obs, floors, m = merge(bounds.run(prog), bounds.run_cheap(prog))
    meta = {
        "level": "other",
        "explanation": (
            "Static (MIR) decision of the structural clause of C08: every ArrayLike view (13 impls + the ArrValue "
            "forwarder) x 3 accessors establishes `index < self.len()` *exactly* on every path before it does "
            "arithmetic on the index, indexes storage with it, captures it, or forwards it to an inner array of a "
            "different length; forwarding unchanged to a same-length inner array or to an Option-returning accessor "
            "on own storage is accepted; ExtendedArray's partition idiom is accepted only while its constructor "
            "establishes split = a.len() and len = a.len() + b.len(). This is a necessary condition of 'indexing at "
            "or beyond the length is an error (also on views of larger arrays)'. NOT decided: that the element "
            "returned in bounds is the right one, nor length arithmetic of constructors."),
        "rule": "R-BOUNDS over MIR: taint of the index parameter; sinks = arithmetic, cast, Index/IndexMut, capture, "
                "helper call, forward; discharge = a conditional CFG edge whose removal disconnects the sink and whose "
                "comparison normalises to index < self.len() (Le/Ge 'weak' forms are rejected).",
        "rules": ["R-BOUNDS"],
        "analysed": m,
        "decided": "bounds guard present and exact on every path of every accessor",
        "not_decided": "value of the element returned; constructor length arithmetic",
        "trusted_base": COMMON_TRUST,
        "assumptions": ["Vec/slice `get` and Iterator::nth return None outside their own storage (std contract)"],
    }
    return obs, floors, meta


def crate_is(*names):
    return lambda f: f.crate.split(".")[0] in names


def file_is(*suffixes):
    return lambda f: f.file.endswith(suffixes)


EVAL_CRATES = ("jrsonnet_evaluator", "jrsonnet_stdlib", "jrsonnet_ir", "jrsonnet_ir_parser", "jrsonnet_lexer",
               "jrsonnet_interner", "jrsonnet_peg_parser", "jrsonnet_cli", "jrsonnet", "jsonnet", "jrsonnet_types",
               "jrsonnet_deps")
FMT_CRATES = ("jrsonnet_rowan_parser", "jrsonnet_formatter", "jrsonnet_fmt", "jrsonnet_lexer")

ARITH_TEXT = ("R-ARITH over MIR: every Assert{Overflow,OverflowNeg,DivisionByZero,RemainderByZero} terminator of an armed "
              "class (Sub on unsigned; any op on 8/16-bit; Add/Sub/Mul on 32-bit; Neg; Div/Rem by a non-constant; shifts by a "
              "non-constant) outside generated code must be discharged by constant operands, a dominating conditional edge "
              "that implies the safe relation on the same operand descriptors (stale facts about reassigned locals are "
              "dropped), a structural idiom, an all-call-sites-constant parameter, or a reviewed entry of "
              "tables/arith_reviewed.json. R-INDEX does the same for BoundsCheck asserts (constant bound, mask/shift idiom, "
              "range/scanner idioms, non-empty guard, tables/index_reviewed.json).")


def merge(*results):
    obs, floors, analysed = [], [], {}
    for o, f, m in results:
        obs.extend(o)
        floors.extend(f)
        analysed.update(m)
    return obs, floors, analysed


def c04(prog, tier):
    obs, floors, an = merge(
        arith.run(prog, crate_is(*EVAL_CRATES), floor=40),
        index.run(prog, crate_is(*EVAL_CRATES), floor=25),
        recur.run_frame(prog, crate_is(*EVAL_CRATES)),
        recur.run_views(prog),
        charb.run(prog, crate_is(*EVAL_CRATES), floor=25),
        # two reviewed R-ARITH entries of format_code rest on the %g branch condition `exponent < precision`
        only(printf.run(prog), ("format_code:g-threshold",)),
        only(recur.run(prog), ("in_frame:guards", "in_description_frame:guards", "ensure_sufficient_stack:guards")),
        # "after any error the same thread evaluates further programs normally"
        only(tls.run(prog), ("check_depth", "run_assertions", "<StackDepthGuard", "StateEnterGuard", "jrsonnet_evaluator::in_")),
        only(imports.run(prog), ("import_resolved:reset", "import_resolved:cycle", "import_resolved:borrow")),
        only(memo.run(prog), tuple(n + ":" + k for n in ("MemoizedClosureThunk::get", "ExprArray::get", "MappedArray::get", "ObjValue::get_idx") for k in ("pending", "borrow", "store"))),
    )
    meta = {
        "level": "other",
        "explanation": (
            "Static (MIR) decision of necessary conditions of C04 'never a crash': (1) no arithmetic trap of an armed "
            "class and no slice-index trap is reachable without a dominating guard in the parser/evaluator/stdlib/CLI/C-API "
            "crates (R-ARITH, R-INDEX). (2) Recursion: a function that calls itself does so only from a closure handed to in_frame / "
            "in_description_frame / ensure_sufficient_stack, or is reviewed as structurally bounded (R-FRAME); array view accessors that "
            "forward to their inner array sit behind such a guard (R-FRAME view); the three guard functions reach check_depth / "
            "stacker::maybe_grow before running the closure (R-RECUR). R-CHARB: every site that cuts a str (split_at, range indexing, "
            "String::truncate/insert/drain..) takes its offsets from a boundary producer of the same text, is guarded by is_char_boundary, "
            "or is a reviewed scanner idiom. Data- or source-depth recursion without a guard is listed as a "
            "known finding per function. (3) 'After any error the same thread evaluates further programs normally': the frame counter, "
            "RUNNING_ASSERTIONS, FileData.evaluating and the memo cells are restored / stored on every exit (R-TLS, R-IMPORT, R-MEMO). "
            "NOT decided: panics inside dependencies, allocation failure, 64-bit length additions, destructor recursion, and that every "
            "unwrap/expect is dead."),
        "rule": ARITH_TEXT,
        "rules": ["R-ARITH", "R-INDEX", "R-FRAME", "R-RECUR", "R-CHARB", "R-TLS", "R-IMPORT", "R-MEMO"],
        "analysed": an,
        "decided": "absence of unguarded arithmetic/index traps of the armed classes; recursion guarded or listed; interpreter state restored after errors",
        "not_decided": "dependency panics; allocation failure; destructor recursion on deep values; unwrap/expect reachability",
        "trusted_base": COMMON_TRUST + ["tables/arith_reviewed.json and tables/index_reviewed.json: hand-reviewed entries with one reason each"],
        "assumptions": ["64-bit additions/multiplications of lengths do not overflow (memory-bounded)"],
    }
    return obs, floors, meta


def c12(prog, tier):
    pred = file_is("jrsonnet-evaluator/src/stdlib/format.rs")
    obs, floors, an = merge(arith.run(prog, pred, floor=8), index.run(prog, pred, floor=12), printf.run(prog), casts.run(prog, pred, floor=4), argswap.run(prog, pred, floor=20))
    meta = {
        "level": "other",
        "explanation": (
            "R-PRINTF (HIR tables): the 15 conversion characters map to (kind, caps) as Python %-formatting defines and anything else is "
            "UnrecognizedConversionType; the 5 flags set the right field; %g switches form exactly at exponent < -4 || exponent >= precision; "
            "the sign column is reserved for neg || blank || sign; format_arr consumes values for width, precision, value in that order, "
            "reports NotEnoughValues at each point, %% consumes nothing, and every successful return follows the surplus-values test; "
            "std.format, % and std.mod reach the same formatter. R-CAST: every float->integer `as` cast in format.rs (they saturate silently) "
            "is dominated by a two-sided range test of the same value or is a reviewed instance. "
            "Static (MIR) decision of the crash clause of C12 for the format-code parser and renderers (format.rs): every "
            "u16/usize arithmetic trap and every byte index into the format string is dominated by a guard (so truncated "
            "codes surface as TruncatedFormatCode, widths that do not fit as an error). NOT decided: the rendered text."),
        "rule": ARITH_TEXT,
        "rules": ["R-ARITH", "R-INDEX", "R-PRINTF", "R-CAST"],
        "analysed": an,
        "decided": "no arithmetic/index trap in format.rs; conversion/flag tables; value accounting",
        "not_decided": "rendered text equals Python-style formatting",
        "trusted_base": COMMON_TRUST,
        "assumptions": [],
    }
    return obs, floors, meta


def c20(prog, tier):
    obs, floors, an = merge(arith.run(prog, crate_is(*FMT_CRATES), floor=12), index.run(prog, crate_is(*FMT_CRATES), floor=4),
                            recur.run_frame(prog, crate_is("jrsonnet_rowan_parser", "jrsonnet_formatter", "jrsonnet_fmt")),
                            charb.run(prog, crate_is("jrsonnet_rowan_parser", "jrsonnet_formatter", "jrsonnet_fmt"), floor=5))
    meta = {
        "level": "other",
        "explanation": (
            "Static (MIR) decision of the 'never crashes' clause of C20 for the syntax-tree parser, the formatter and "
            "jrsonnet-fmt: no unguarded arithmetic or index trap of the armed classes; self-recursive functions of parser and printer are "
            "guarded or listed as known findings (R-FRAME). Idempotence (a fixed point of the layout solver) is NOT decidable statically "
            "and is not claimed."),
        "rule": ARITH_TEXT,
        "rules": ["R-ARITH", "R-INDEX", "R-FRAME"],
        "analysed": an,
        "decided": "no arithmetic/index trap in rowan-parser, formatter, jrsonnet-fmt, lexer",
        "not_decided": "idempotence; panics inside dprint-core/rowan/hi-doc",
        "trusted_base": COMMON_TRUST,
        "assumptions": [],
    }
    return obs, floors, meta


def c09(prog, tier):
    obs, floors, an = merge(numctor.run(prog), cmp.run(prog), registry.run(prog, C09_NAMES),
                            casts.run(prog, lambda f: not f.file.endswith("jrsonnet-evaluator/src/stdlib/format.rs"), floor=15))
    meta = {
        "level": "other",
        "explanation": (
            "(Math builtins: each of the 18 single-primitive functions resolves to the f64 method of the same name, so 'agrees with "
            "the platform math library' holds by construction for those; their f64 result re-enters through Val::try_num.) "
            "Static decision of the structural clauses of C09: (1) every construction of NumValue is dominated by "
            "is_finite() on the same value, or is a lossless <=32-bit integer conversion, or a 64-bit integer conversion "
            "under both safe-integer guards; no transmute fabricates one (so NaN/inf cannot be held by Val::Num); builtin "
            "f64 results re-enter through Val::try_num. (2) One order/equality: NumValue::cmp is IEEE partial_cmp of the "
            "payloads, NumValue::eq / primitive_equals are exact ==, evaluate_compare_op orders numbers by NumValue::cmp(a,b), "
            "the relational arms use the matching Ordering predicate, the sort fast paths key on NumValue, no total_cmp. R-CAST: every "
            "float->integer `as` cast outside format.rs (27 today) is range-tested on both sides, checked by its Typed descriptor "
            "(BoundedNumber with both bounds), or a reviewed instance. "
            "(3) bitwise/shift arms range-check both operands and reject negative counts on the raw operand; / and % are "
            "dominated by the exact zero-divisor test. NOT decided: correct rounding, libm agreement of composite functions."),
        "rule": "R-NUMCTOR (MIR aggregate sites + dominating facts) and R-CMP (MIR callee identity + HIR match-arm tables)",
        "rules": ["R-NUMCTOR", "R-CMP", "R-REGISTRY", "R-CAST"],
        "analysed": an,
        "decided": "finite-only construction; single numeric order/equality; operand range checks; zero-divisor guard",
        "not_decided": "IEEE rounding of + - * /; values returned by libm; shift results",
        "trusted_base": COMMON_TRUST,
        "assumptions": ["f64::is_finite, partial_cmp have their std semantics"],
    }
    return obs, floors, meta


def only(res, prefixes):
    obs, floors, an = res
    return [o for o in obs if o.key.split(":", 1)[1].startswith(prefixes)], [], an


def literal_decoding(prog):
    """both evaluator parsers decode quoted strings through jrsonnet_ir::unescape::unescape"""
    from .report import ok, bad, info
    obs = []
    callers = {cf.crate.split(".")[0] for cf, b, t in prog.callers.get("jrsonnet_ir::unescape::unescape", [])}
    want = {"jrsonnet_ir_parser", "jrsonnet_peg_parser"}
    if want <= callers:
        obs.append(ok("R-TABLE", "literals:unescape", "", "ir-parser and peg-parser both decode escapes with jrsonnet_ir::unescape::unescape"))
    else:
        obs.append(bad("R-TABLE", "literals:unescape", "", "string escapes are not decoded by the shared unescape() in %s" % sorted(want - callers)))
    cs = {cf.crate.split(".")[0] for cf, b, t in prog.callers.get("jrsonnet_lexer::string_block::collect_lexed_str_block", [])}
    obs.append(info("R-TABLE", "literals:text-block", "", "text blocks: ir-parser uses the lexer's block scanner (%s); the PEG grammar has its own string_block rule "
                    "(structural divergence, equality of the two scanners is semantic and not decided)" % sorted(cs)))
    return obs, [], {}


def c01(prog, tier):
    # "the outcome is the same whichever of the two bundled source parsers is selected": both evaluator parsers' tables
    obs, floors, an = merge(ops.run(prog), casts.run(prog, file_is("jrsonnet-evaluator/src/evaluate/mod.rs"), floor=4), argswap.run(prog, crate_is("jrsonnet_evaluator", "jrsonnet_ir_parser", "jrsonnet_ir"), floor=300),
                            tables.run(prog, which=("ir", "peg")), only(strict.run(prog), ("evaluate:exhaustive", "evaluate_binary_op_special")),
                            only(cmp.run(prog), ("relational:", "bitwise:", "shift-negative:")))
    meta = {
        "level": "other",
        "explanation": (
            "Static decision of table-shaped necessary conditions of C01: every Expr variant has its own arm in evaluate(); every "
            "BinaryOpType/UnaryOpType variant is named by a dispatch arm; + - * / % delegate to the evaluate_*_op of the same "
            "name with operands in order and compute try_num(a OP b) on numbers; `in` uses the include-hidden lookup; &&/|| "
            "short-circuit; ==/!= are equals / !equals; relational arms use the matching Ordering predicate; array + is "
            "extended(a, b); unary operators act on the right operand type. The default parser's precedence/associativity/"
            "token/reserved-word tables equal the Jsonnet grammar. Parameter defaults are evaluated in a context that "
            "already contains the passed arguments, in both the direct and the prepared (TLA / native) call path. "
            "NOT decided: that any value is the prescribed one; scoping; experimental desugarings."),
        "rule": "R-OPS (HIR match-arm tables of the operator dispatch; MIR dominance for argument binding) + R-TABLE (MIR-extracted binding powers, HIR token maps) + R-STRICT/R-CMP arms",
        "rules": ["R-OPS", "R-TABLE", "R-STRICT", "R-CMP"],
        "analysed": an,
        "decided": "operator dispatch and default-parser tables equal the language definition; argument binding order",
        "not_decided": "values; scoping; parser tree equality",
        "trusted_base": COMMON_TRUST + ["transcription of the Jsonnet operator/precedence tables in rules/tables.py and rules/ops.py"],
        "assumptions": [],
    }
    return obs, floors, meta


def c06(prog, tier):
    obs, floors, an = merge(tables.run(prog, which=("ir", "peg", "rowan")), literal_decoding(prog))
    meta = {
        "level": "other",
        "explanation": (
            "Static cross-check of the three parsers' tables with each other and the Jsonnet grammar: binding-power tables of "
            "the default (ir) and syntax-tree (rowan) parsers extracted from MIR, the PEG precedence!{} block read from the "
            "macro input: same partition into 10 levels in the same order, all binary operators left-associative, unary "
            "tighter than binary, same operator tokens, same unary operator set, same 18 reserved words (ir-parser, lexer "
            "keyword tokens, PEG); both evaluator parsers decode escapes through the shared unescape(). NOT decided: equality "
            "of trees / accept-reject agreement for all texts (semantics of the generated automata)."),
        "rule": "R-TABLE: finite table extraction (MIR switch tables, HIR literal arms, token reader on the peg::parser! input) and exhaustive comparison with the specification tables",
        "rules": ["R-TABLE"],
        "analysed": an,
        "decided": "precedence/associativity/token/reserved-word tables of the three parsers",
        "not_decided": "tree equality; error/accept agreement; text-block scanner equality",
        "trusted_base": COMMON_TRUST + ["peg, logos, rowan generators"],
        "assumptions": [],
    }
    return obs, floors, meta


def c02(prog, tier):
    obs, floors, an = merge(lookup.run(prog), only(memo.run(prog), ("ObjValue::get_idx", "object-locals", "CachedUnbound")),
                            only(tls.run(prog), ("run_assertions",)), registry.run(prog, ["objectRemoveKey", "objectHas", "objectHasAll", "objectHasEx"]))
    meta = {
        "level": "other",
        "explanation": (
            "Static decision of the structural protocol behind C02 (HIR sibling cross-check + MIR): the three layer walkers "
            "(has_field_include_hidden_idx, get_idx_uncached, field_visibility_idx) all iterate cores[..idx] right to left, "
            "turn Omit(n) into skip = max(skip, n+1), accept positive outcomes only under skip == 0, and decrement skip exactly "
            "once per layer; get_for_core is asked with omit_only = (skip != 0) and every non-omit core answers NotFound under "
            "omit_only without evaluating; every ObjValueInner starts with an empty cache and assertions_ran = !has_assertions; "
            "has_field/has_field_ex select the right walker; == compares visible field lists; a + b is b.extend_from(a) and "
            "extend_from concatenates sup ++ self; per-(name,layer) field memo and per-object locals context (R-MEMO); "
            "run_assertions restores RUNNING_ASSERTIONS on every exit (R-TLS). NOT decided: that reads return the right "
            "layer's *value* for all chains."),
        "rule": "R-LOOKUP (HIR match-arm / loop-shape comparison of sibling walkers; MIR entry-switch of cores; aggregate sites), R-MEMO, R-TLS",
        "rules": ["R-LOOKUP", "R-MEMO", "R-TLS"],
        "analysed": an,
        "decided": "walker protocol agreement; omit_only honoured; cache/assertion state initialised; predicate wiring",
        "not_decided": "values of reads; super/self binding beyond the SupThis built from the loop index",
        "trusted_base": COMMON_TRUST,
        "assumptions": [],
    }
    return obs, floors, meta


def c07(prog, tier):
    obs, floors, an = merge(imports.run(prog))
    meta = {
        "level": "other",
        "explanation": (
            "Static decision of the structural clauses of C07 (MIR typestate): import_resolved returns a cached value without "
            "re-evaluating, reports a file that is being evaluated as InfiniteRecursionDetected, stores evaluating=true before "
            "and evaluating=false after evaluate() on *every* exit (success and error), drops the file_cache guard before "
            "evaluating; all three import_resolved* read the file only on the Vacant cache edge and insert only after a "
            "successful read; resolve_from checks the importer-relative path before the library paths, which are searched "
            "front to back; the cache key of a regular file is always path.canonicalize(); the CLI reverses -J before "
            "appending JSONNET_PATH. NOT decided: resolver fault/retry histories; filesystem symlink semantics."),
        "rule": "R-IMPORT: MIR variant-edge reachability, field-store-on-all-exits, guard liveness, callee/argument provenance; HIR loop order",
        "rules": ["R-IMPORT"],
        "analysed": an,
        "decided": "read-once / evaluate-once / cycle / flag reset / search order / canonical key",
        "not_decided": "behaviour under injected resolver faults; importstr byte equality",
        "trusted_base": COMMON_TRUST,
        "assumptions": ["Path::canonicalize resolves symlinks and relative components (std contract)"],
    }
    return obs, floors, meta


C10_NAMES = ("sort uniq set setMember setUnion setInter setDiff member contains find count remove removeAt flattenArrays flattenDeepArray "
             "foldl foldr map mapWithIndex filter filterMap flatMap join lines deepJoin any all sum avg minArray maxArray range repeat slice makeArray reverse").split()
C11_NAMES = ("length substr split splitLimit splitLimitR strReplace findSubstr startsWith endsWith stripChars lstripChars rstripChars trim asciiUpper "
             "asciiLower stringChars codepoint char equalsIgnoreCase isEmpty escapeStringJson escapeStringPython escapeStringBash escapeStringDollars "
             "parseInt parseOctal parseHex parseJson parseYaml encodeUTF8 decodeUTF8 base64 base64Decode base64DecodeBytes md5 sha1 sha256 sha512 sha3 "
             "format toString").split()
C13_NAMES = ("objectFields objectFieldsAll objectValues objectValuesAll objectKeysValues objectKeysValuesAll objectHas objectHasAll objectHasEx "
             "objectFieldsEx get mapWithKey mergePatch prune objectRemoveKey length type isString isNumber isBoolean isObject isArray isFunction "
             "equals primitiveEquals assertEqual xor xnor").split()
C09_NAMES = ("abs sign max min pow exp log log2 log10 exponent mantissa floor ceil sqrt sin cos tan asin acos atan atan2 round isEven isOdd "
             "isInteger isDecimal clamp mod").split()


def extras(prog, prefixes):
    from .report import Floor
    obs = [o for o in registry.check_extras(prog) if o.key.split(":", 1)[1].startswith(prefixes)]
    return obs, [], {}


def stdlib_meta(pid, decided_extra, an):
    return {
        "level": "other",
        "explanation": (
            "Static decision of a narrow, structural slice of %s (the results of the functions are values and are NOT decided). "
            "Registry chain through the array literal of stdlib_uncached: every std name of the statement is registered exactly "
            "once, the Rust builtin bound to it has the documented parameter names in the documented order (named-argument calls "
            "depend on it), and -- where the definition is a single primitive or excludes one -- it resolves to that callee "
            "(spec/stdlib.json, one row per function). %s" % (pid, decided_extra)),
        "rule": "R-REGISTRY: HIR array-literal extraction of (name, builtin) pairs -> MIR arg names and resolved callees (+ generic args, constant args) vs spec/stdlib.json",
        "rules": ["R-REGISTRY"],
        "analysed": an,
        "decided": "registration, documented signature, distinguishing callee; " + decided_extra,
        "not_decided": "that any function returns what its definition gives (value property)",
        "trusted_base": COMMON_TRUST + ["spec/stdlib.json transcribed from the Jsonnet stdlib documentation / std.jsonnet"],
        "assumptions": [],
    }


def c10(prog, tier):
    pred = file_is("jrsonnet-stdlib/src/arrays.rs", "jrsonnet-stdlib/src/sort.rs", "jrsonnet-stdlib/src/sets.rs", "jrsonnet-stdlib/src/keyf.rs")
    obs, floors, an = merge(registry.run(prog, C10_NAMES), extras(prog, ("std.sort",)), only(cmp.run(prog), ("sort_identity", "sort_keyf", "evaluate_compare_op")),
                            arith.run(prog, pred), index.run(prog, pred), only(bounds.run(prog), ("SliceArray", "RepeatedArray", "ReverseArray", "RangeArray")))
    meta = stdlib_meta("C10", "Also: keyed sorts are stable sorts and every ordering goes through evaluate_compare_op / NumValue order (R-CMP); the two generic "
                       "sort comparators are siblings; no unguarded arithmetic/index trap in arrays.rs, sort.rs, sets.rs (R-ARITH/R-INDEX); the views behind "
                       "slice/repeat/reverse/range bounds-check exactly (R-BOUNDS).", an)
    meta["rules"] += ["R-CMP", "R-ARITH", "R-INDEX", "R-BOUNDS"]
    return obs, floors, meta


def c11(prog, tier):
    pred = file_is("jrsonnet-stdlib/src/strings.rs", "jrsonnet-stdlib/src/encoding.rs", "jrsonnet-stdlib/src/hash.rs", "jrsonnet-stdlib/src/parse.rs", "jrsonnet-stdlib/src/misc.rs")
    # byte lengths / offsets vs code-point counts in the string builtins (the unit inference of C17, other scope)
    obs, floors, an = merge(registry.run(prog, C11_NAMES), extras(prog, ("parse_nat",)), arith.run(prog, pred), index.run(prog, pred),
                            units.run(prog, files=("crates/jrsonnet-stdlib/src/strings.rs",), fns=(), floor_fns=10, floor_sites=2),
                            argswap.run(prog, pred, floor=10))
    meta = stdlib_meta("C11", "Also: digests are computed by the named digest crate over as_bytes() of the argument; encode/decode pairs use the same engine; "
                       "substr counts code points (chars().skip().take()); findSubstr does not use the non-overlapping match_indices; parse_nat accepts a digit "
                       "only if digit < BASE; no unguarded arithmetic/index trap in the string/encoding/parse modules.", an)
    meta["rules"] += ["R-ARITH", "R-INDEX"]
    return obs, floors, meta


def c13(prog, tier):
    obs, floors, an = merge(registry.run(prog, C13_NAMES), extras(prog, ("std.get",)),
                            only(hashord.run(prog), ("jrsonnet_evaluator::obj::", "<jrsonnet_evaluator::obj::")),
                            lookup.run(prog),
                            only(cmp.run(prog), ("primitive_equals",)))
    meta = stdlib_meta("C13", "Also: field names come out of fields_ex sorted by content (R-HASHORD); objectHas/objectHasAll/objectHasEx/`in` select the visible / "
                       "include-hidden walker as documented and both walkers follow the skip protocol (R-LOOKUP); objectRemoveKey has no visible-only shortcut; "
                       "std.get tests visibility before it forces the field; equals compares visible field lists; primitiveEquals is exact.", an)
    meta["rules"] += ["R-HASHORD", "R-LOOKUP", "R-CMP"]
    return obs, floors, meta


def c18(prog, tier):
    obs, floors, an = merge(trace.run(prog), trace.run_interner(prog), only(tls.run(prog), ("run_assertions",)),
                            only(memo.run(prog), ("CachedUnbound.cache", "ExprArray.cached", "MappedArray.cached")))
    meta = {
        "level": "other",
        "explanation": (
            "Static decision of the structural clauses of C18. R-TRACE (type walk in the driver + MIR of every Trace::trace body): a field that a "
            "Trace impl does not visit (#[trace(skip)] or hand-written impl) cannot own a Cc through owned fields (Weak pointers cut the walk; dyn "
            "traits only if Acyclic is a supertrait); no type declared Acyclic (59 derives + manual unsafe impls) has a field that can own a Cc. "
            "R-INTERN: IStr/IBytes handles are constructed only inside the interner and only from a fresh Inner::clone; nothing in the interner "
            "forgets a handle (mem::forget / ManuallyDrop, with a workspace-wide positive control); both Drop impls call maybe_unpool; maybe_unpool "
            "unpools exactly at strong_count <= 2; set_refcnt has exactly two writers. R-TLS: a failing object assertion leaves RUNNING_ASSERTIONS "
            "(otherwise the object stays pinned in a thread-local). NOT decided: the collector itself (dependency), refcount protocol over histories."),
        "rule": "R-TRACE (driver type reachability 'can own a Cc' per field + visited-field extraction from Trace::trace MIR), R-INTERN (MIR aggregate provenance, who-may-call), R-TLS",
        "rules": ["R-TRACE", "R-INTERN", "R-TLS", "R-MEMO"],
        "analysed": an,
        "decided": "trace coverage of every owning path to a Cc; Acyclic declarations sound; interner handle/refcount pairing",
        "not_decided": "collector completeness; interner behaviour over operation histories",
        "trusted_base": COMMON_TRUST + ["jrsonnet_gcmodule's Trace/Acyclic contracts", "list of Acyclic-bounded dyn traits in rules/trace.py (checked by reading the trait declarations)"],
        "assumptions": ["the reachability walk treats every generic argument and every field of local ADTs as owned (conservative)"],
    }
    return obs, floors, meta


def c19(prog, tier):
    obs, floors, an = merge(fmtcover.run(prog), fmttokens.run(prog), argswap.run(prog, crate_is("jrsonnet_formatter", "jrsonnet_rowan_parser"), floor=50), only(tables.run(prog, which=("rowan",)), ("rowan:",)))
    meta = {
        "level": "other",
        "explanation": (
            "Static decision of a coverage condition that is necessary for 'formatting preserves the program' and 'every comment appears in the "
            "output': every child accessor of every syntax node kind of the generated tree (79) and the semantic token accessors (tailstrict, "
            "field `+`, `?` of null-coalescing index) are read by the formatter, list children are walked with children_between::<T>; every "
            "children_between site keeps the children's before/inline trivia and the ending comments and hands them to format_comments; "
            "format() returns Err before printing when the parser reported errors; R-FMTTOK: every token that jsonnet.ungram makes mandatory in a "
            "node (45 tokens of 27 nodes) is written on every path through that node's print code, as a literal, through a child printer that owes "
            "it, or by printing the node's own text; the syntax-tree parser's operator tables equal the grammar "
            "(otherwise the printed tree is not the evaluator's tree). NOT decided: AST equality of output and input (semantic), layout logic."),
        "rule": "R-FMTCOVER: MIR call enumeration of generated accessors from the formatter crate; HIR destructuring of children_between results; MIR dominance for refusal; R-TABLE for the rowan precedence tables",
        "rules": ["R-FMTCOVER", "R-FMTTOK", "R-TABLE"],
        "analysed": an,
        "decided": "child / semantic-token / trivia coverage of the printer; mandatory grammar tokens written on every path; refusal on syntax errors",
        "not_decided": "that the printed text parses to the same AST; comment placement",
        "trusted_base": COMMON_TRUST + ["generated nodes.rs accessors reflect jsonnet.ungram"],
        "assumptions": ["optional punctuation (trailing commas, second and third `:` of a slice) is layout and not checked"],
    }
    return obs, floors, meta


def c14(prog, tier):
    obs, floors, an = merge(fmttables.run(prog), fmttables.run_text(prog), fmttables.run_indent(prog), fmttables.run_toml_header(prog),
                            fmttables.run_escape(prog), fmttables.run_strict(prog))
    meta = {
        "level": "other",
        "explanation": (
            "Static decision of table / guard conditions that are necessary for C14 (the behaviour itself -- that an independent parser reads "
            "the text back as the same data -- quantifies over runtime strings and is NOT decided). R-FMTTABLES checks, from HIR patterns, "
            "constant items and MIR paths of the writers: the TOML bare-key class is within A-Za-z0-9_- and excludes the empty key; the "
            "YAML plain-scalar class contains no indicator character, the reserved-word list contains the YAML 1.1 bool/null/float words and "
            "is compared case-insensitively; the XML escaper searches for and replaces exactly the five predefined entities; every write of "
            "user text that bypasses an escaper happens on the true edge of the format's bare-word predicate or inside a block scalar; the "
            "escaper used for TOML basic strings / YAML double-quoted scalars covers every code point the grammar forbids raw (JSON's table "
            "plus U+007F..U+009F, U+FFFE, U+FFFF); Str values always pass through the escaper in the Python, TOML and XML writers; XML "
            "attribute values are escaped between their quotes; Val::Func (and Val::Null in TOML) reach the return without any write; "
            "`---` precedes every YAML stream document; YAML first-line and continuation indents come from the same option field; a TOML "
            "table header is omitted only for a table known to be non-empty."),
        "rule": "R-FMTTABLES: HIR literal-pattern classes vs format grammar tables; MIR edge facts (bare-word predicate true edge); MIR must-pass-through (escaper, header); sibling pairing of indent writes",
        "rules": ["R-FMTTABLES"],
        "analysed": an,
        "decided": "character classes, reserved words, entity map, escaper coverage, guard placement, rejection of out-of-domain values, framing",
        "not_decided": "round trip through a real parser; number look-alike predicates of bare_safe; section / array-of-table layout beyond the header rule; "
                       "block scalars with leading spaces or several trailing newlines (outside the property's block-scalar-safe class); INI, "
                       "PythonVars and XML names are written raw by design (inventoried as info)",
        "trusted_base": COMMON_TRUST + ["TOML 1.0 / YAML 1.1+1.2 / XML 1.0 character tables transcribed in rules/fmttables.py"],
        "assumptions": ["escape_string_json_buf implements its ESCAPE table (decided under C05's R-JSON)"],
    }
    return obs, floors, meta


def c17(prog, tier):
    obs, floors, an = merge(units.run(prog), units.run_prov(prog), units.run_trivia(prog))
    meta = {
        "level": "other",
        "explanation": (
            "Static decision of structural conditions necessary for C17; tiling of the generated (logos) lexer, losslessness of the tree for "
            "every input and `a span covers its construct` quantify over parser runs and are NOT decided. R-UNIT: in the position pipeline "
            "(location.rs, source.rs, trace/mod.rs, the lexers, the event sink, StdTracePrinter, the parser's span helpers) every integer is "
            "given a unit -- byte offset (str::len, char_indices, find, len_utf8, Span.1/.2, CodeLocation.offset/line_*_offset, "
            "ParseError.location.offset, the offsets parameter of offset_to_location / map_source_locations), character index "
            "(chars().enumerate(), chars().count()) or line/column -- by a flow-insensitive inference over MIR locals; a comparison, "
            "addition, chain(), store into a declared field or argument passing that joins two different units is a violation. R-PROV: "
            "every map_source_locations call maps Span.1 (start) first and Span.2 of the same span second; print_code_location prints "
            "start.line first, end.column last and, on the start.line != end.line edge, start.line:start.column-end.line:end.column; its "
            "callers pass locations[0] and locations[1] of one mapping; the parser's error position is span_start(), which is the current "
            "lexeme's start or, at end of input, the last lexeme's end; span_end is the previous lexeme's end. R-TRIVIA: the token filter "
            "in front of the syntax-tree parser and the tree builder's skip_whitespace accept the same kind set; a tree token's text is "
            "lexemes[offset].text with offset advancing by one; nothing else adds tokens to the green tree."),
        "rule": "R-UNIT: unit inference over MIR locals seeded from std APIs and declared fields; R-PROV: MIR operand provenance; R-TRIVIA: sibling predicate classes from HIR patterns + resolved callees",
        "rules": ["R-UNIT", "R-PROV", "R-TRIVIA"],
        "analysed": an,
        "decided": "no byte/char/column unit confusion; start-before-end provenance of every printed position; parser EOF position; trivia class agreement; token text provenance",
        "not_decided": "lexer tiling (generated automaton), byte-for-byte tree text for every input, span covers the construct, CRLF handling of columns",
        "trusted_base": COMMON_TRUST + ["logos-generated lexer", "rowan GreenNodeBuilder"],
        "assumptions": ["column numbers are counted in characters (the property's ASCII-prefix precondition makes bytes and characters coincide on the line)"],
    }
    return obs, floors, meta


def c15(prog, tier):
    obs, floors, an = merge(argswap.run(prog, crate_is("jrsonnet_cli", "jrsonnet", "jsonnet", "jrsonnet_deps"), floor=20), capi.run_enter(prog), capi.run_siblings(prog), capi.run_prov(prog), capi.run_optsplit(prog), capi.run_exit(prog), capi.run_visit(prog),
                            capi.run_format_map(prog), only(tls.run(prog), ("jrsonnet::main_real", "jrsonnet_cli::", "jrsonnet_evaluator::stack::set_stack")),
                            only(imports.run(prog), ("cli:jpath-order",)))
    meta = {
        "level": "other",
        "explanation": (
            "Static decision of the structural wiring behind C15. R-ENTER: all 7 entry points (main_real + the six "
            "jsonnet_evaluate_* C functions) enter their State, hold the guard, and only then evaluate. R-SIBLING: the six C "
            "entry points have the same pipeline import|evaluate_snippet -> apply_tla(vm.tla_args) -> manifest|val_to_multi|"
            "val_to_stream(vm.manifest_format); NUL framing of multi/stream results. R-PROV: the 8 option loops (--ext-*/--tla-*) "
            "take the key from .name and the payload from .value/.path with the TlaArg variant of their flavour. R-TABLE: -f "
            "format map, default paddings, -S/-y wrapping, C API default format = CLI default. R-EXIT: error -> exit 1. "
            "R-TLS: --max-stack guard held for the whole of main_real. R-COVER(visit): the AST visitor used by jrsonnet-deps "
            "binds and visits every sub-expression of every node (no `..`, no wildcard), flags exactly `import` as code, and "
            "collect_deps recurses on that flag. NOT decided: byte equality of outputs."),
        "rule": "MIR dominance/guard-liveness (R-ENTER, R-TLS), resolved-callee pipelines of sibling functions (R-SIBLING), HIR field provenance (R-PROV), HIR tables (R-TABLE), HIR pattern coverage (R-COVER)",
        "rules": ["R-ENTER", "R-SIBLING", "R-PROV", "R-TABLE", "R-EXIT", "R-TLS", "R-COVER", "R-IMPORT"],
        "analysed": an,
        "decided": "entered state; sibling pipelines; option provenance; format map; exit status; visitor coverage",
        "not_decided": "output equality between CLI, library and C API; native callback memory safety (see DESIGN R-UAF)",
        "trusted_base": COMMON_TRUST,
        "assumptions": [],
    }
    return obs, floors, meta


def c16(prog, tier):
    obs, floors, an = merge(hashord.run(prog), tls.run(prog), only(imports.run(prog), ("import_resolved:reset", "import_resolved:marker")))
    meta = {
        "level": "other",
        "explanation": (
            "Static decision of the structural clauses of C16. R-HASHORD: every order-exposing call on a HashMap/HashSet in "
            "product code (8 sources today) is either totally sorted by content before it escapes, a reviewed "
            "order-insensitive consumer, or a reviewed emitter whose every (transitive) consumer is discharged; a new "
            "iteration site is reported. R-TLS: the frame counter is incremented only together with a guard; guard Drops "
            "write the inverse value; every guard-returning call binds its result to a named local (or is a reviewed "
            "forwarder); run_assertions leaves RUNNING_ASSERTIONS on all exits; FileData.evaluating is reset on all exits. "
            "NOT decided: cross-process byte identity in general (allocator, environment), dependencies."),
        "rule": "R-HASHORD (MIR call enumeration by receiver type + sort/comparator analysis + reviewed consumer table), R-TLS (MIR pairing / all-exits reachability)",
        "rules": ["R-HASHORD", "R-TLS", "R-IMPORT"],
        "analysed": an,
        "decided": "no hash order reaches an observable; interpreter state restored on every exit",
        "not_decided": "determinism of dependencies; interner history effects beyond hashing",
        "trusted_base": COMMON_TRUST + ["reviewed consumer table in rules/hashord.py (one reason per entry)"],
        "assumptions": ["IStr Ord is by content (checked by reading inner.rs)"],
    }
    return obs, floors, meta


def c03(prog, tier):
    obs, floors, an = merge(memo.run(prog), strict.run(prog),
                            only(lookup.run(prog), ("OopObject::get_for_core", "StandaloneSuperCore::get_for_core", "get_idx_uncached:omit_only")))
    meta = {
        "level": "other",
        "explanation": (
            "Static decision of the structural clauses of call-by-need. At-most-once (R-MEMO, MIR typestate on 5 memo sites: "
            "Thunk! closures, array literal elements, mapped elements, object fields per (name,layer), cached object-local "
            "contexts): a cache hit cannot reach the compute call; Pending is InfiniteRecursionDetected; a Pending marker is "
            "stored first; no RefCell guard is live across the compute call; every non-unwinding exit stores value or error; "
            "memo cells of Clone owners are behind shared pointers; one locals context per object. Never-unneeded (R-STRICT, "
            "HIR of the evaluator): all 19 Expr variants have their own arm; Arr/Function/ArrComp/LocalExpr/IfElse/Apply/Obj "
            "arms and the binding/destructuring/argument/object-member helpers evaluate nothing outside Thunk! closures "
            "except what the semantics force; tailstrict only moves the evaluate call under `if tailstrict`; &&/|| do not "
            "touch their right operand in the short-circuit arms. NOT decided: trace multisets; laziness inside stdlib."),
        "rule": "R-MEMO (MIR: variant-edge reachability, store-on-all-exits, guard liveness) + R-STRICT (HIR: eager evaluate-family calls outside MemoizedClosureThunk::new closures)",
        "rules": ["R-MEMO", "R-STRICT"],
        "analysed": an,
        "decided": "memo typestate of 5 sites; strictness signature of the evaluator",
        "not_decided": "values; stdlib laziness beyond R-STRICT helpers",
        "trusted_base": COMMON_TRUST,
        "assumptions": ["closures passed to anything but MemoizedClosureThunk::new run immediately (eager combinators)"],
    }
    return obs, floors, meta


def c05(prog, tier):
    obs, floors, an = merge(jsonw.run(prog), numctor.run(prog))
    meta = {
        "level": "other",
        "explanation": (
            "Static decision of structural clauses of C05. (1) Exhaustive over all 256 byte values: the const-evaluated "
            "ESCAPE table equals RFC 8259 (controls, quote, backslash escaped; everything else, including all bytes >= 0x80, "
            "copied verbatim, which keeps the unsafe byte view valid UTF-8); HEX_DIGITS is 0-9a-f; the \\u00XX sequence "
            "takes both nibbles of the same byte; the match covers every table value. (2) One writer: JsonFormat, "
            "ToStringFormat and manifest_json_ex funnel into manifest_json_ex_buf; keys and string values go through the "
            "escaper; only NumValue is Display-formatted, via <f64 as Display> from a finite-only NumValue (R-NUMCTOR) so "
            "no exponent/NaN token; Val::Func reaches an error without writing; indentation state is restored on every "
            "non-error path. (3) parseJson number visitors convert their own parameter without re-casting. NOT decided: "
            "parseJson o manifest = id (serde_json trusted; value equality)."),
        "rule": "R-JSON: const-evaluated statics vs RFC 8259 table; MIR aggregate/descriptor checks on escape_string_json_buf; "
                "callee-identity and reachability checks on the writer; R-NUMCTOR for finite numbers",
        "rules": ["R-JSON", "R-NUMCTOR"],
        "analysed": an,
        "decided": "escaping table and sequences; single writer; rejection of functions; number token form",
        "not_decided": "round trip through an independent parser; key order (see C13/C16 R-HASHORD)",
        "trusted_base": COMMON_TRUST + ["RFC 8259 section 7 transcription in rules/jsonw.py"],
        "assumptions": ["<f64 as Display> never prints an exponent or a non-finite token for finite values (std contract)"],
    }
    return obs, floors, meta


PROPS = {
    "C01": {"run": c01, "thorough_cfgs": ["default", "experimental"]},
    "C06": {"run": c06, "thorough_cfgs": ["default", "pegparser"]},
    "C02": {"run": c02, "thorough_cfgs": ["default", "experimental"]},
    "C07": {"run": c07, "thorough_cfgs": ["default"]},
    "C10": {"run": c10, "thorough_cfgs": ["default", "experimental"]},
    "C11": {"run": c11, "thorough_cfgs": ["default", "experimental"]},
    "C13": {"run": c13, "thorough_cfgs": ["default", "experimental"]},
    "C18": {"run": c18, "thorough_cfgs": ["default", "experimental", "capi-nodefault"]},
    "C19": {"run": c19, "thorough_cfgs": ["default"]},
    "C17": {"run": c17, "thorough_cfgs": ["default", "experimental"]},
    "C14": {"run": c14, "thorough_cfgs": ["default", "experimental"]},
    "C15": {"run": c15, "thorough_cfgs": ["default", "capi-nodefault"]},
    "C16": {"run": c16, "thorough_cfgs": ["default", "experimental"]},
    "C03": {"run": c03, "thorough_cfgs": ["default", "experimental"]},
    "C05": {"run": c05, "thorough_cfgs": ["default", "experimental"]},
    "C09": {"run": c09, "thorough_cfgs": ["default", "experimental"]},
    "C04": {"run": c04},
    "C12": {"run": c12, "thorough_cfgs": ["default", "experimental"]},
    "C20": {"run": c20, "thorough_cfgs": ["default"]},
    "C08": {"run": c08, "thorough_cfgs": ["default", "experimental"]},
}
