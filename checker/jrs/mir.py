"""MIR model over the driver's JSON facts: CFG, dominance, edge facts, operand descriptors."""
import glob
import json
import os
import pickle
import re
import sys
from functools import lru_cache

TRANSPARENT_CALLS = (
    "core::ops::deref::Deref::deref", "core::ops::deref::DerefMut::deref_mut", "core::clone::Clone::clone",
    "core::borrow::Borrow::borrow", "core::convert::AsRef::as_ref", "core::borrow::BorrowMut::borrow_mut",
    "core::convert::AsMut::as_mut",
)


def opname(op):
    """MIR names checked arithmetic AddWithOverflow etc.; rules talk about Add"""
    return op[:-12] if op.endswith("WithOverflow") else (op[:-9] if op.endswith("Unchecked") else op)


class Fn:
    def __init__(self, j, crate):
        self.j = j
        self.crate = crate
        self.path = j["path"]
        self.kind = j["kind"]
        self.file = j["file"]
        self.line = j["line"]
        self.exp = j["exp"]
        self.arg_count = j["arg_count"]
        self.locals = j["locals"]
        self.blocks = j["blocks"]
        self.parent = j.get("parent")
        self.root = j.get("root")
        self.self_ty = j.get("self_ty")
        self.impl_trait = j.get("impl_trait")
        self.arg_names = j.get("arg_names", [])
        self.n = len(self.blocks)
        self._succ = None
        self._pred = None
        self._idom = None
        self._defs = None
        self._edgedom = {}
        self.varnames = {}
        for name, pl in j.get("vars", []):
            if len(pl) == 1:
                self.varnames.setdefault(pl[0], name)
        self.upvars = {}  # (field idx string) -> name for closures
        for name, pl in j.get("vars", []):
            if len(pl) > 1 and pl[0] == 1:
                self.upvars[tuple(pl[1:])] = name

    # ---- parameters by role: private functions may have their parameters renamed or reordered, so rules ask for "the parameter
    # called X, else the nth parameter whose type mentions T" instead of a position
    def param(self, name=None, ty=None, nth=0):
        if name is not None:
            for i, n in enumerate(self.arg_names):
                if n == name and i < self.arg_count:
                    return i + 1
        if ty is not None:
            hits = [i for i in range(1, self.arg_count + 1) if ty in str(self.locals[i])]
            if nth < len(hits):
                return hits[nth]
        return None

    # ---- basic
    def name(self):
        return self.path

    def short(self):
        return "%s (%s:%s)" % (self.path, self.file, self.line)

    def term(self, b):
        return self.blocks[b]["t"]

    def tkind(self, b):
        t = self.blocks[b]["t"]
        return t["k"] if isinstance(t, dict) else t[0]

    def stmts(self, b):
        return self.blocks[b]["s"]

    def is_cleanup(self, b):
        return self.blocks[b]["c"]

    def succ(self, b, unwind=False):
        t = self.blocks[b]["t"]
        if isinstance(t, dict):
            out = []
            if t.get("target") is not None:
                out.append(t["target"])
            if unwind and t.get("unwind") is not None:
                out.append(t["unwind"])
            return out
        k = t[0]
        if k == "goto":
            return [t[1]]
        if k == "switch":
            out = []
            for _v, bb, _n in t[2]:
                if bb not in out:
                    out.append(bb)
            if t[3] not in out:
                out.append(t[3])
            return out
        if k == "drop":
            out = [t[2]]
            if unwind and t[3] is not None:
                out.append(t[3])
            return out
        return []

    @property
    def succs(self):
        if self._succ is None:
            self._succ = [self.succ(b) for b in range(self.n)]
        return self._succ

    @property
    def preds(self):
        if self._pred is None:
            p = [[] for _ in range(self.n)]
            for b in range(self.n):
                for s in self.succs[b]:
                    p[s].append(b)
            self._pred = p
        return self._pred

    def reachable(self, start=0, removed_edge=None, removed_blocks=()):
        seen = set()
        if start in removed_blocks:
            return seen
        st = [start]
        seen.add(start)
        while st:
            b = st.pop()
            for s in self.succs[b]:
                if removed_edge is not None and (b, s) == removed_edge:
                    continue
                if s in removed_blocks or s in seen:
                    continue
                seen.add(s)
                st.append(s)
        return seen

    def reach_from(self, start, removed_blocks=()):
        """blocks reachable from start (exclusive of start unless on a cycle)"""
        seen = set()
        st = [s for s in self.succs[start] if s not in removed_blocks]
        for s in st:
            seen.add(s)
        while st:
            b = st.pop()
            for s in self.succs[b]:
                if s in removed_blocks or s in seen:
                    continue
                seen.add(s)
                st.append(s)
        return seen

    @property
    def live_blocks(self):
        return self.reachable(0)

    def dominated_by_block(self, a):
        """set of blocks dominated by block a (all paths from entry pass through a)"""
        if a == 0:
            return set(self.live_blocks)
        r = self.reachable(0, removed_blocks=(a,))
        return set(self.live_blocks) - r

    def block_dominates(self, a, b):
        if a == b:
            return True
        return b in self.dominated_by_block_cached(a)

    @lru_cache(maxsize=None)
    def dominated_by_block_cached(self, a):
        return frozenset(self.dominated_by_block(a))

    def edge_dominated(self, e):
        """blocks that become unreachable from entry when CFG edge e=(u,v) is removed"""
        if e not in self._edgedom:
            r = self.reachable(0, removed_edge=e)
            self._edgedom[e] = frozenset(set(self.live_blocks) - r)
        return self._edgedom[e]

    def returns(self):
        return [b for b in range(self.n) if self.tkind(b) == "ret" and b in self.live_blocks]

    # ---- definitions
    @property
    def defs(self):
        if self._defs is None:
            d = {}
            for b in range(self.n):
                for i, s in enumerate(self.blocks[b]["s"]):
                    if s[0] == "a":
                        pl = s[1]
                        d.setdefault(pl[0], []).append(("s", b, i, pl, s[2]))
                    elif s[0] == "sd":
                        d.setdefault(s[1][0], []).append(("sd", b, i, s[1], s[2]))
                t = self.blocks[b]["t"]
                if isinstance(t, dict) and t["k"] == "call":
                    pl = t["dest"]
                    d.setdefault(pl[0], []).append(("call", b, None, pl, t))
            self._defs = d
        return self._defs

    def single_def(self, l):
        ds = [x for x in self.defs.get(l, []) if len(x[3]) == 1]
        allds = self.defs.get(l, [])
        if len(ds) == 1 and len(allds) == 1:
            return ds[0]
        return None

    # ---- calls
    def calls(self):
        for b in range(self.n):
            t = self.blocks[b]["t"]
            if isinstance(t, dict) and t["k"] == "call":
                yield b, t

    def asserts(self):
        for b in range(self.n):
            t = self.blocks[b]["t"]
            if isinstance(t, dict) and t["k"] == "assert":
                yield b, t

    # ---- descriptors
    def desc_op(self, op, depth=14):
        k = op[0]
        if k == "c":
            return ("const", op[2], op[1])
        if k == "fn":
            return ("fnref", op[1])
        if k in ("cp", "mv"):
            return self.desc_place(op[1], depth)
        return ("unknown",)

    def desc_place(self, pl, depth=14):
        base = self.desc_local(pl[0], depth)
        for pr in pl[1:]:
            base = proj(base, pr)
        return base

    def desc_local(self, l, depth=14):
        if 1 <= l <= self.arg_count:
            nm = self.arg_names[l - 1] if l - 1 < len(self.arg_names) and self.arg_names[l - 1] else None
            if self.kind == "Closure" and l == 1:
                return ("env",)
            return ("param", l, nm or self.varnames.get(l))
        if depth <= 0:
            return ("unknown",)
        sd = self.single_def(l)
        if sd is None:
            if l in self.defs:
                return ("var", l, self.varnames.get(l))
            return ("uninit", l)
        if sd[0] == "call":
            t = sd[4]
            callee = t.get("res") or t.get("fn") or "?"
            args = tuple(self.desc_op(a, depth - 1) for a in t["args"])
            d = ("call", callee, args, t.get("fn"))
            return simplify_call(d)
        if sd[0] == "sd":
            return ("var", l, self.varnames.get(l))
        return self.desc_rvalue(sd[4], depth - 1)

    def desc_rvalue(self, rv, depth=14):
        k = rv[0]
        if k == "use":
            return self.desc_op(rv[1], depth)
        if k == "ref" or k == "rawptr":
            pl = rv[2] if k == "ref" else rv[1]
            return ("ref", self.desc_place(pl, depth))
        if k == "cast":
            return ("cast", rv[1], self.desc_op(rv[2], depth), rv[3], rv[4])
        if k == "bin":
            return ("bin", opname(rv[1]), self.desc_op(rv[2], depth), self.desc_op(rv[3], depth), rv[4])
        if k == "un":
            return ("un", rv[1], self.desc_op(rv[2], depth))
        if k == "discr":
            return ("discr", self.desc_place(rv[1], depth), rv[2])
        if k == "agg":
            return ("agg", rv[1], rv[2], rv[3], tuple(self.desc_op(o, depth) for o in rv[4]))
        if k == "tls":
            return ("tls", rv[1])
        if k == "repeat":
            return ("repeat", self.desc_op(rv[1], depth))
        return ("unknown",)

    # ---- conditional edge facts
    def cond_edges(self):
        """yield (u, v, fact) for each conditional CFG edge; fact = (desc, value) where value is
        True/False for bool switches, ('variant', name) / ('not-variants', [..]) for discriminant
        switches, ('eq', n) / ('ne', [..]) for integer switches."""
        for b in sorted(self.live_blocks):
            t = self.blocks[b]["t"]
            if isinstance(t, list) and t[0] == "switch":
                d = self.desc_op(t[1])
                ty = t[4]
                arms = t[2]
                other = t[3]
                if ty == "bool":
                    # switchInt(bool): [0 -> bbF], otherwise -> bbT   (or the converse)
                    for v, bb, _ in arms:
                        yield b, bb, (d, bool(v))
                    if len(arms) == 1:
                        yield b, other, (d, not bool(arms[0][0]))
                elif d[0] == "discr":
                    names = []
                    for v, bb, nm in arms:
                        names.append(nm if nm is not None else v)
                        yield b, bb, (d, ("variant", nm if nm is not None else v))
                    allv = t[6] if len(t) > 6 else None
                    rest = [x for x in allv if x not in names] if allv else None
                    if rest is not None and len(rest) == 1:
                        yield b, other, (d, ("variant", rest[0]))
                    else:
                        yield b, other, (d, ("not-variants", tuple(names), tuple(rest) if rest else None))
                else:
                    vals = []
                    for v, bb, _ in arms:
                        vals.append(v)
                        yield b, bb, (d, ("eq", v))
                    yield b, other, (d, ("ne", tuple(vals)))
            elif isinstance(t, dict) and t["k"] == "assert":
                d = self.desc_op(t["cond"])
                yield b, t["target"], (d, ("assert", t["expected"], t["kind"]))

    @lru_cache(maxsize=None)
    def _cond_edge_list(self):
        return list(self.cond_edges())

    def facts_at(self, b, _depth=0):
        """all conditional-edge facts that hold on every path reaching block b"""
        out = self._facts_at_raw(b)
        if _depth >= 3:
            return out
        # a boolean local assigned on several paths (`let ok = a && b;` lowers to `ok = false` on one path and `ok = b` on the
        # other): knowing its value excludes the paths that stored the opposite constant; if one definition remains, its value
        # and the facts of its block hold as well
        extra = []
        for u, v, (d, val) in out:
            if not isinstance(val, bool):
                continue
            sd = d
            while sd and sd[0] in ("ref", "deref"):
                sd = sd[1]
            if not sd or sd[0] != "var":
                continue
            defs = [x for x in self.defs.get(sd[1], []) if len(x[3]) == 1]
            if len(defs) != len(self.defs.get(sd[1], [])) or not defs:
                continue
            rest = []
            for x in defs:
                if x[0] == "s" and x[4][0] == "use" and x[4][1][0] == "c" and x[4][1][1] == "bool" and isinstance(x[4][1][2], (bool, int)):
                    if bool(x[4][1][2]) != val:
                        continue
                rest.append(x)
            if len(rest) > 1 and val is True:
                # monotone flag (`ok = ok && f(x)` in a loop): a definition that is only executed where the flag is already
                # known to be true cannot be the one that made it true; if one other definition remains it is the origin
                def under_flag(block):
                    for u2, v2, (d2, val2) in self._facts_at_raw(block):
                        e = d2
                        while e and e[0] in ("ref", "deref"):
                            e = e[1]
                        if val2 is True and e and e[0] == "var" and e[1] == sd[1]:
                            return True
                    return False

                def self_conditioned(x):
                    if under_flag(x[1]):
                        return True
                    # `flag = tmp` where tmp is `flag && ..` lowered into its own temporary: every definition of tmp that is
                    # not the constant false sits under `flag == true`
                    if x[0] == "s" and x[4][0] == "use" and x[4][1][0] in ("cp", "mv") and len(x[4][1][1]) == 1:
                        tdefs = self.defs.get(x[4][1][1][0], [])
                        nonconst = [y for y in tdefs if not (y[0] == "s" and y[4][0] == "use" and y[4][1][0] == "c" and not y[4][1][2])]
                        return bool(tdefs) and all(under_flag(y[1]) for y in nonconst)
                    return False
                rest = [x for x in rest if not self_conditioned(x)]
            if len(rest) != 1:
                continue
            x = rest[0]
            if x[0] == "s":
                if x[4][0] == "use" and x[4][1][0] == "c":
                    continue
                nd = self.desc_rvalue(x[4])
            elif x[0] == "call":
                t = x[4]
                nd = simplify_call(("call", t.get("res") or t.get("fn") or "?", tuple(self.desc_op(a) for a in t["args"]), t.get("fn")))
            else:
                continue
            D = x[1]
            if D == b:
                continue
            nval = val
            while nd and nd[0] == "un" and nd[1] == "Not" and isinstance(nval, bool):
                nd, nval = nd[2], not nval
            extra.append((D, D, (nd, nval)))
            extra.extend(self.facts_at(D, _depth + 1))
        return out + extra

    def _facts_at_raw(self, b):
        out = []
        for u, v, fact in self._cond_edge_list():
            # several switch values may share one target: then the edge carries a disjunction; skip
            same = [1 for (u2, v2, _f) in self._cond_edge_list() if u2 == u and v2 == v]
            if len(same) > 1:
                continue
            if b in self.edge_dominated((u, v)) or (v == b and len(self.preds[b]) == 1):
                if self._stale(u, v, b, fact[0]):
                    continue
                out.append((u, v, fact))
        return out

    def _vars_of(self, d, acc):
        if isinstance(d, tuple):
            if d and d[0] == "var":
                acc.add(d[1])
            for x in d:
                if isinstance(x, tuple):
                    self._vars_of(x, acc)
        return acc

    def _stale(self, u, v, b, d):
        """a fact about a mutable local is stale at b if the local may be reassigned between the
        test (edge u->v) and b without the test being re-evaluated"""
        vs = self._vars_of(d, set())
        if not vs:
            return False
        between = self.reachable(v, removed_blocks=(u,)) if v != u else set()
        for l in vs:
            for df in self.defs.get(l, []):
                D = df[1]
                if D == u:
                    # assigned in the testing block itself (before the switch): that is the tested value
                    continue
                if D in between:
                    if D == b:
                        return True
                    if b in self.reachable(D, removed_blocks=(u,)):
                        return True
        return False

    def var_name(self, l):
        return self.varnames.get(l)


def proj(base, pr):
    if pr == "*":
        if base[0] == "ref":
            return base[1]
        return ("deref", base)
    if pr.startswith("."):
        name = pr.split(":", 1)[1] if ":" in pr else pr[1:]
        if base[0] == "agg" and base[1] in ("tuple", "adt", "closure"):
            # field of a known aggregate
            try:
                idx = int(pr[1:].split(":")[0])
                return base[4][idx]
            except Exception:
                pass
        return ("field", base, name)
    if pr.startswith("as:"):
        return ("as", base, pr[3:])
    if pr.startswith("["):
        return ("index", base, pr)
    return ("proj", base, pr)


def simplify_call(d):
    """see through identity-like wrappers"""
    callee = d[3] or d[1]
    if callee in TRANSPARENT_CALLS and len(d[2]) == 1:
        a = d[2][0]
        if callee.endswith("deref") or callee.endswith("deref_mut"):
            # &T -> &U : keep as a pseudo-field so that x.deref().len() compares equal
            return ("ref", ("deref", strip_ref(a)))
        if callee.endswith("clone"):
            return strip_ref(a)
        return a
    return d


def strip_ref(d):
    while d and d[0] == "ref":
        d = d[1]
    return d


def strip(d):
    """normalise a descriptor for comparison: drop refs/derefs/identity casts"""
    if not isinstance(d, tuple) or not d:
        return d
    k = d[0]
    if k in ("ref", "deref"):
        return strip(d[1])
    if k == "field":
        return ("field", strip(d[1]), d[2])
    if k == "as":
        return ("as", strip(d[1]), d[2])
    if k == "call":
        return ("call", d[1], tuple(strip(a) for a in d[2]))
    if k == "bin":
        return ("bin", d[1], strip(d[2]), strip(d[3]), d[4] if len(d) > 4 else None)
    if k == "un":
        return ("un", d[1], strip(d[2]))
    if k == "cast":
        return ("cast", d[1], strip(d[2]), d[3], d[4] if len(d) > 4 else None)
    if k == "discr":
        return ("discr", strip(d[1]))
    if k == "param":
        return ("param", d[1])
    if k == "var":
        return ("var", d[1])
    if k == "const":
        return ("const", d[1])
    return d


def show(d):
    if not isinstance(d, tuple) or not d:
        return str(d)
    k = d[0]
    if k == "param":
        return (d[2] if len(d) > 2 else None) or ("self" if d[1] == 1 else "arg%d" % d[1])
    if k == "var":
        return (d[2] if len(d) > 2 else None) or "_%d" % d[1]
    if k == "const":
        return str(d[1])
    if k == "ref":
        return "&" + show(d[1])
    if k == "deref":
        return "*" + show(d[1])
    if k == "field":
        return "%s.%s" % (show(d[1]), d[2])
    if k == "as":
        return "(%s as %s)" % (show(d[1]), d[2])
    if k == "index":
        return "%s%s" % (show(d[1]), d[2])
    if k == "call":
        return "%s(%s)" % (short_path(d[1]), ", ".join(show(a) for a in d[2]))
    if k == "bin":
        return "(%s %s %s)" % (show(d[2]), d[1], show(d[3]))
    if k == "un":
        return "%s(%s)" % (d[1], show(d[2]))
    if k == "cast":
        return "(%s as %s)" % (show(d[2]), short_path(d[3]))
    if k == "discr":
        return "discr(%s)" % show(d[1])
    if k == "agg":
        return "%s{%s}" % (d[2] or d[1], ", ".join(show(a) for a in d[4]))
    if k == "env":
        return "env"
    if k == "fnref":
        return "fn " + short_path(d[1])
    return k


_NEG = {"Lt": "Ge", "Ge": "Lt", "Gt": "Le", "Le": "Gt", "Eq": "Ne", "Ne": "Eq"}
_MIRROR = {"Gt": "Lt", "Ge": "Le", "Lt": "Gt", "Le": "Ge", "Eq": "Eq", "Ne": "Ne"}


def rel_fact(d, val):
    """canonical form of `comparison == val`: (op, a, b) meaning `a op b` holds, with op in Lt/Le/Eq/Ne (Gt/Ge are mirrored) and,
    for Eq/Ne, a constant operand on the right; None if d is not a comparison.  `2 >= n` true, `n <= 2` true and `n > 2` false all
    give (Le, n, 2)."""
    sd = strip(d)
    if not (isinstance(sd, tuple) and sd and sd[0] == "bin" and sd[1] in _NEG and isinstance(val, bool)):
        return None
    op, a, b = sd[1], sd[2], sd[3]
    if not val:
        op = _NEG[op]
    if op in ("Gt", "Ge"):
        op, a, b = _MIRROR[op], b, a
    if op in ("Eq", "Ne") and isinstance(a, tuple) and a and a[0] == "const" and not (isinstance(b, tuple) and b and b[0] == "const"):
        a, b = b, a
    return op, a, b


def short_path(p):
    return re.sub(r"\b([a-z_][a-z_0-9]*::)+", "", p) if p else "?"


def contains(d, pred):
    """does any sub-descriptor satisfy pred?"""
    if not isinstance(d, tuple):
        return False
    if d and isinstance(d[0], str):
        try:
            if pred(d):
                return True
        except IndexError:
            pass
    for x in d:
        if isinstance(x, tuple) and contains(x, pred):
            return True
    return False


class Program:
    """all crates of one configuration"""

    def __init__(self, facts_dir):
        self.dir = facts_dir
        self.crates = {}
        self.fns = {}
        self.hir = {}
        self.items = {}
        self._callers = None
        pk = os.path.join(facts_dir, "program.pickle")
        raw = None
        if os.path.exists(pk):
            try:
                with open(pk, "rb") as fh:
                    raw = pickle.load(fh)
            except Exception:
                raw = None
        if raw is None:
            raw = {}
            for p in sorted(glob.glob(os.path.join(facts_dir, "*.json"))):
                with open(p) as fh:
                    raw[os.path.basename(p)[:-5]] = json.load(fh)
            try:
                tmp = pk + ".%d" % os.getpid()
                with open(tmp, "wb") as fh:
                    pickle.dump(raw, fh, protocol=pickle.HIGHEST_PROTOCOL)
                os.replace(tmp, pk)
            except Exception:
                pass
        self._requested = {}
        self.aliases = self._resolve_renamed_anchors(raw)
        for unit, j in raw.items():
            self.crates[unit] = j
            for f in j["fns"]:
                fn = Fn(f, unit)
                # the same path can appear in lib+bin units of different crates only; keep first
                self.fns.setdefault(fn.path, fn)
            for h in j.get("hir") or []:
                self.hir.setdefault(h["path"], h)
            self.items[unit] = j.get("items") or {}

    # ---- anchors: functions that rules look up by path.  tables/anchors.json freezes the kind and the return / argument types of
    # every anchor found on the reference tree.  If an anchor is missing from the program (a private function was renamed) and
    # exactly one function with the same parent path, kind and signature exists that is not itself an anchor, the program is
    # analysed with that function under the anchor's name (every occurrence of the new path in MIR, HIR and items is rewritten
    # while loading).  Anything else stays "not found" and fails closed.
    def fn(self, path):
        f = self.fns.get(path)
        if os.environ.get("JRS_RECORD_ANCHORS") and f is not None and f.kind != "Closure":
            self._requested[path] = f
        return f

    @staticmethod
    def _parent(path):
        depth = 0
        cut = None
        i = 0
        while i < len(path) - 1:
            ch = path[i]
            if ch == "<":
                depth += 1
            elif ch == ">" and (i == 0 or path[i - 1] != "-"):
                depth -= 1
            elif ch == ":" and path[i + 1] == ":" and depth == 0:
                cut = i
                i += 1
            i += 1
        return path[:cut] if cut is not None else ""

    @staticmethod
    def _sig_raw(f):
        return [f["kind"]] + [str(x) for x in f["locals"][:1 + f["arg_count"]]]

    def _resolve_renamed_anchors(self, raw):
        p = os.path.join(os.path.dirname(os.path.dirname(os.path.dirname(os.path.abspath(__file__)))), "tables", "anchors.json")
        try:
            with open(p) as fh:
                anchors = json.load(fh)["anchors"]
        except Exception:
            return {}
        have = {}
        for unit, j in raw.items():
            for f in j["fns"]:
                have.setdefault(f["path"], f)
        missing = [a for a in anchors if a not in have]
        if not missing:
            return {}
        ren = {}
        for a in missing:
            par = self._parent(a)
            c = [q for q, f in have.items() if q not in anchors and f["kind"] != "Closure" and self._parent(q) == par
                 and self._sig_raw(f) == anchors[a]["sig"]]
            if len(c) == 1 and c[0] not in ren.values():
                ren[a] = c[0]
        # second chance: the function kept its name and signature but changed its home (moved to another module of the same crate, or a
        # private free function turned into a method or back); accepted only when exactly one such function exists
        def last(q):
            return re.sub(r"<[^<>]*>", "", q.rsplit("::", 1)[-1])

        def crate_of(q):
            m = re.match(r"<?([a-z_][a-z_0-9]*)::", q)
            return m.group(1) if m else q
        for a in missing:
            if a in ren or anchors[a]["sig"][0] == "Closure":
                continue
            c = [q for q, f in have.items() if q not in anchors and q not in ren.values() and f["kind"] != "Closure" and last(q) == last(a)
                 and crate_of(q) == crate_of(a) and self._sig_raw(f)[1:] == anchors[a]["sig"][1:]]
            if len(c) == 1:
                ren[a] = c[0]
        if not ren:
            return {}
        back = {new: old for old, new in ren.items()}

        def fix(x):
            if isinstance(x, str):
                if x in back:
                    return back[x]
                for new, old in back.items():
                    if x.startswith(new + "::"):
                        return old + x[len(new):]
                return x
            if isinstance(x, list):
                for i, y in enumerate(x):
                    if isinstance(y, (str, list, dict)):
                        x[i] = fix(y)
                return x
            if isinstance(x, dict):
                for k, y in x.items():
                    if isinstance(y, (str, list, dict)):
                        x[k] = fix(y)
                return x
            return x

        for unit, j in raw.items():
            fix(j)
        for old, new in ren.items():
            print("[anchors] %s is analysed under its reference name %s (same signature; same parent, or same name elsewhere in the crate)" % (new, old), file=sys.stderr)
        return ren

    def dump_anchors(self, out):
        cur = {}
        for path, f in self._requested.items():
            if f.path == path and path not in self.aliases:
                cur[path] = {"sig": [f.kind] + [str(x) for x in f.locals[:1 + f.arg_count]]}
        with open(out, "w") as fh:
            json.dump({"comment": "functions the rules look up by path, with kind + return/argument types on the reference tree "
                                  "(see Program._resolve_renamed_anchors); regenerate with JRS_RECORD_ANCHORS=1 python3 checker/verif.py check ALL",
                       "anchors": dict(sorted(cur.items()))}, fh, indent=1)

    def reaches_call(self, path, pred, depth=2, _seen=None):
        """does the workspace function `path` call (directly or through workspace functions, to `depth`) a callee for which pred holds"""
        _seen = _seen if _seen is not None else set()
        if path in _seen:
            return False
        _seen.add(path)
        f = self.fns.get(path)
        if f is None:
            return False
        hosts = [f] + [c for c in self.fns.values() if c.kind == "Closure" and c.root == path]
        for h in hosts:
            for b, t in h.calls():
                for c in {t.get("res"), t.get("fn")}:
                    if not c:
                        continue
                    if pred(c):
                        return True
                    if depth > 0 and c in self.fns and self.reaches_call(c, pred, depth - 1, _seen):
                        return True
        return False

    def has_crate(self, name):
        return any(u.split(".")[0] == name for u in self.crates)

    def fns_matching(self, pred):
        return [f for f in self.fns.values() if pred(f)]

    def adts(self):
        for unit, it in self.items.items():
            for a in it.get("adts", []):
                yield unit, a

    def impls(self):
        for unit, it in self.items.items():
            for a in it.get("impls", []):
                yield unit, a

    def statics(self):
        for unit, it in self.items.items():
            for a in it.get("statics", []):
                yield unit, a

    def consts(self):
        for unit, it in self.items.items():
            for a in it.get("consts", []):
                yield unit, a

    def closures_of(self, path):
        return [f for f in self.fns.values() if f.kind == "Closure" and f.root == path]

    # ---- call graph over resolved callees
    def callees(self, fn):
        out = []
        for b, t in fn.calls():
            c = t.get("res") or t.get("fn")
            if c:
                out.append((b, c, t))
        return out

    @property
    def callers(self):
        if self._callers is None:
            c = {}
            for f in self.fns.values():
                for b, t in f.calls():
                    for key in {t.get("res"), t.get("fn")}:
                        if key:
                            c.setdefault(key, []).append((f, b, t))
            self._callers = c
        return self._callers


# ---- appends to a String: the writers spell the same append as push_str / push / `+=` / write_str / write_char / write! / extend;
# rules ask for "a write of X to buffer B", not for one spelling
_STR_WRITE_KINDS = {
    "alloc::string::String::push_str": "str",
    "alloc::string::String::push": "char",
    "<alloc::string::String as core::ops::arith::AddAssign<&str>>::add_assign": "str",
    "<alloc::string::String as core::fmt::Write>::write_str": "str",
    "<alloc::string::String as core::fmt::Write>::write_char": "char",
}


def string_write_kind(t):
    fn = t.get("res") or t.get("fn") or ""
    k = _STR_WRITE_KINDS.get(fn)
    if k:
        return k
    a0 = str((t.get("argtys") or [""])[0])
    if fn.endswith("fmt::Write::write_fmt") and "alloc::string::String" in a0:
        return "fmt"
    if fn.startswith("<alloc::string::String as core::iter::traits::collect::Extend<") and fn.endswith("::extend"):
        return "iter"
    return None


def string_writes(g):
    """(block, call, kind, destination, source) of every append to a String outside cleanup; kind is str / char / fmt / iter"""
    for b, t in g.calls():
        if g.is_cleanup(b) or len(t.get("args") or []) < 2:
            continue
        k = string_write_kind(t)
        if k:
            yield b, t, k, strip(g.desc_op(t["args"][0])), strip(g.desc_op(t["args"][1]))


def const_text(d):
    """text of a constant char / str descriptor (`'['`, 91 and "[" are the same write), else None"""
    if not (isinstance(d, tuple) and len(d) >= 2 and d[0] == "const"):
        return None
    v = d[1]
    if isinstance(v, bool):
        return None
    if isinstance(v, int):
        return chr(v) if 0 <= v < 0x110000 else None
    if isinstance(v, str) and len(v) >= 2 and v[0] == '"' and v[-1] == '"':
        out, i, body = [], 0, v[1:-1]
        while i < len(body):
            c = body[i]
            if c == "\\" and i + 1 < len(body):
                n = body[i + 1]
                if n == "u" and body[i + 2:i + 3] == "{":
                    j = body.index("}", i)
                    out.append(chr(int(body[i + 3:j], 16)))
                    i = j + 1
                    continue
                out.append({"n": "\n", "t": "\t", "r": "\r", "0": "\0"}.get(n, n))
                i += 2
                continue
            out.append(c)
            i += 1
        return "".join(out)
    return None


def same_modulo_depth(a, b):
    """structural equality of two descriptors where `unknown` (the point at which descriptor expansion stopped) matches anything:
    the same value described from two program points is cut off at different depths"""
    if a == b:
        return True
    if isinstance(a, tuple) and a[:1] == ("unknown",) or isinstance(b, tuple) and b[:1] == ("unknown",):
        return True
    if isinstance(a, tuple) and isinstance(b, tuple) and len(a) == len(b):
        return all(same_modulo_depth(x, y) for x, y in zip(a, b))
    return False
